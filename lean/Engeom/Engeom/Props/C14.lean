import Engeom.Model.Selection
import Mathlib.Data.List.Basic
/-
  C14 — Mesh face selection is set algebra over a per-face predicate.
  The selection (a HashSet in the Rust code) is a list in the model; all statements are about
  MEMBERSHIP, hence independent of the order in which the hash set hands out its elements.
-/

namespace C14

/-! ### Add / Remove / Keep refine union / difference / intersection -/

theorem mutate_add (s : Filter) (P : Nat → Bool) (i : Nat) :
    i ∈ (s.mutate .add P).indices ↔ i ∈ s.indices ∨ (i < s.n ∧ P i = true) := by
  simp only [Filter.mutate, List.mem_append, List.mem_filter, List.mem_range, Bool.and_eq_true,
    Bool.not_eq_true', List.contains_eq_mem, decide_eq_false_iff_not]
  constructor
  · rintro (h | ⟨h1, _, h3⟩)
    · exact Or.inl h
    · exact Or.inr ⟨h1, h3⟩
  · rintro (h | ⟨h1, h2⟩)
    · exact Or.inl h
    · by_cases hm : i ∈ s.indices
      · exact Or.inl hm
      · exact Or.inr ⟨h1, hm, h2⟩

theorem mutate_remove (s : Filter) (P : Nat → Bool) (i : Nat) :
    i ∈ (s.mutate .remove P).indices ↔ i ∈ s.indices ∧ P i = false := by
  simp [Filter.mutate, List.mem_filter]

theorem mutate_keep (s : Filter) (P : Nat → Bool) (i : Nat) :
    i ∈ (s.mutate .keep P).indices ↔ i ∈ s.indices ∧ P i = true := by
  simp [Filter.mutate, List.mem_filter]

/-- the selection stays duplicate-free (it is a set) -/
theorem mutate_nodup (s : Filter) (op : SelOp) (P : Nat → Bool) (h : s.indices.Nodup) :
    (s.mutate op P).indices.Nodup := by
  cases op
  · simp only [Filter.mutate]
    refine List.nodup_append.mpr ⟨h, (List.nodup_range).filter _, ?_⟩
    intro a ha b hb hab
    subst hab
    have := (List.mem_filter.mp hb).2
    simp [ha] at this
  · exact h.filter _
  · exact h.filter _

/-- the number of faces never changes, and selected indices stay below it -/
theorem mutate_bounds (s : Filter) (op : SelOp) (P : Nat → Bool) (h : ∀ i ∈ s.indices, i < s.n) :
    (s.mutate op P).n = s.n ∧ ∀ i ∈ (s.mutate op P).indices, i < s.n := by
  cases op
  · refine ⟨rfl, fun i hi => ?_⟩
    rcases (mutate_add s P i).mp hi with h' | h'
    · exact h i h'
    · exact h'.1
  · exact ⟨rfl, fun i hi => h i ((mutate_remove s P i).mp hi).1⟩
  · exact ⟨rfl, fun i hi => h i ((mutate_keep s P i).mp hi).1⟩

/-- A whole chain of facing-type steps: by induction every step is the corresponding set
    operation, whatever came before. -/
theorem chain_mem (steps : List (SelOp × (Nat → Bool))) (s : Filter) :
    (steps.foldl (fun acc st => acc.mutate st.1 st.2) s).n = s.n := by
  induction steps generalizing s with
  | nil => rfl
  | cons st r ih => simp only [List.foldl_cons]; rw [ih]; cases st.1 <;> rfl

/-! ### the pass-list form used by near_mesh -/

theorem toCheck_mem (s : Filter) (op : SelOp) (i : Nat) :
    i ∈ s.toCheck op ↔ (match op with | .add => i < s.n ∧ i ∉ s.indices | _ => i ∈ s.indices) := by
  cases op <;> simp [Filter.toCheck, List.mem_filter]

theorem mutatePassList_add (s : Filter) (pass : List Nat) (i : Nat) :
    i ∈ (s.mutatePassList .add pass).indices ↔ i ∈ s.indices ∨ i ∈ pass := by
  simp only [Filter.mutatePassList, List.mem_append, List.mem_filter, Bool.not_eq_true',
    List.contains_eq_mem, decide_eq_false_iff_not]
  constructor
  · rintro (h | ⟨h, _⟩)
    · exact Or.inl h
    · exact Or.inr h
  · rintro (h | h)
    · exact Or.inl h
    · by_cases hm : i ∈ s.indices
      · exact Or.inl hm
      · exact Or.inr ⟨h, hm⟩

theorem mutatePassList_remove (s : Filter) (pass : List Nat) (i : Nat) :
    i ∈ (s.mutatePassList .remove pass).indices ↔ i ∈ s.indices ∧ i ∉ pass := by
  simp [Filter.mutatePassList, List.mem_filter]

theorem mutatePassList_keep (s : Filter) (pass : List Nat) (i : Nat) :
    i ∈ (s.mutatePassList .keep pass).indices ↔ i ∈ s.indices ∧ i ∈ pass := by
  simp [Filter.mutatePassList, List.mem_filter]

/-! ### the memo of the near check is transparent -/

section Near
variable {R : Type}

/-- everything stored in the memo is the face-independent result of that vertex -/
def MemoInv (base : Nat → Option (Option R)) (m : Memo R) : Prop :=
  ∀ v r, m.get? v = some r → r = base v

theorem memoInv_nil (base : Nat → Option (Option R)) : MemoInv base ([] : Memo R) := by
  intro v r h; simp [Memo.get?] at h

theorem nearCheck_transparent (base : Nat → Option (Option R)) (ha : Bool) (angleOk : R → Bool)
    (m : Memo R) (v : Nat) (hm : MemoInv base m) :
    (nearCheck base ha angleOk m v).1 = pureNear base ha angleOk v ∧
    MemoInv base (nearCheck base ha angleOk m v).2 := by
  unfold nearCheck pureNear
  cases hg : m.get? v with
  | some r =>
    simp only
    exact ⟨by rw [hm v r hg], hm⟩
  | none =>
    simp only
    refine ⟨by trivial, ?_⟩
    intro w r hw
    unfold Memo.get? at hw
    simp only [List.find?_cons] at hw
    by_cases hvw : (v == w) = true
    · simp only [hvw] at hw
      have : v = w := by simpa using hvw
      subst this
      simpa using hw.symm
    · simp only [hvw] at hw
      exact hm w r (by unfold Memo.get?; exact hw)

theorem nearFace_transparent (base : Nat → Option (Option R)) (ha : Bool) (angleOk : Nat → R → Bool)
    (allPoints : Bool) (m : Memo R) (f : Nat) (tri : Face) (hm : MemoInv base m) :
    (nearFace base ha angleOk allPoints m f tri).1 = pureNearFace base ha angleOk allPoints f tri ∧
    MemoInv base (nearFace base ha angleOk allPoints m f tri).2 := by
  obtain ⟨e0, i0⟩ := nearCheck_transparent base ha (angleOk f) m tri.1 hm
  obtain ⟨e1, i1⟩ := nearCheck_transparent base ha (angleOk f) (nearCheck base ha (angleOk f) m tri.1).2 tri.2.1 i0
  obtain ⟨e2, i2⟩ := nearCheck_transparent base ha (angleOk f)
    (nearCheck base ha (angleOk f) (nearCheck base ha (angleOk f) m tri.1).2 tri.2.1).2 tri.2.2 i1
  unfold nearFace pureNearFace
  simp only
  cases allPoints
  · simp only [Bool.false_eq_true, if_false]
    rw [← e0]
    cases h0 : (nearCheck base ha (angleOk f) m tri.1).1
    · simp only [Bool.false_eq_true, if_false, Bool.false_or]
      rw [← e1]
      cases h1 : (nearCheck base ha (angleOk f) (nearCheck base ha (angleOk f) m tri.1).2 tri.2.1).1
      · simp only [Bool.false_eq_true, if_false, Bool.false_or]
        exact ⟨e2, i2⟩
      · simp only [if_true, Bool.true_or]
        exact ⟨trivial, i1⟩
    · simp only [if_true, Bool.true_or]
      exact ⟨trivial, i0⟩
  · simp only [if_true]
    rw [← e0]
    cases h0 : (nearCheck base ha (angleOk f) m tri.1).1
    · simp only [Bool.not_false, if_true, Bool.false_and]
      exact ⟨trivial, i0⟩
    · simp only [Bool.not_true, Bool.false_eq_true, if_false, Bool.true_and]
      rw [← e1]
      cases h1 : (nearCheck base ha (angleOk f) (nearCheck base ha (angleOk f) m tri.1).2 tri.2.1).1
      · simp only [Bool.not_false, if_true, Bool.false_and]
        exact ⟨trivial, i1⟩
      · simp only [Bool.not_true, Bool.false_eq_true, if_false, Bool.true_and]
        exact ⟨e2, i2⟩

/-- For EVERY evaluation order, the pass list is the filter of that order by the pure,
    un-memoised per-face predicate. -/
theorem nearPasses_spec (faces : List Face) (base : Nat → Option (Option R)) (ha : Bool)
    (angleOk : Nat → R → Bool) (allPoints : Bool) :
    ∀ (order : List Nat) (m : Memo R), MemoInv base m →
      (nearPasses faces base ha angleOk allPoints m order).1 =
        order.filter (fun f => pureNearFace base ha angleOk allPoints f ((faces[f]?).getD (0, 0, 0))) ∧
      MemoInv base (nearPasses faces base ha angleOk allPoints m order).2
  | [], m, hm => ⟨rfl, hm⟩
  | f :: r, m, hm => by
    obtain ⟨e, i⟩ := nearFace_transparent base ha angleOk allPoints m f ((faces[f]?).getD (0, 0, 0)) hm
    obtain ⟨e', i'⟩ := nearPasses_spec faces base ha angleOk allPoints r _ i
    simp only [nearPasses, List.filter_cons]
    rw [← e]
    refine ⟨?_, i'⟩
    cases (nearFace base ha angleOk allPoints m f ((faces[f]?).getD (0, 0, 0))).1 <;> simp [e']

/-- `near_mesh` refines set algebra over the pure predicate: the result does not depend on the
    order in which the faces were evaluated, nor on what the memo held. -/
theorem nearMesh_refines (s : Filter) (faces : List Face) (base : Nat → Option (Option R)) (ha : Bool)
    (angleOk : Nat → R → Bool) (allPoints : Bool) (op : SelOp) (order : List Nat)
    (horder : ∀ i, i ∈ order ↔ i ∈ s.toCheck op) (i : Nat) :
    let Q := fun f => pureNearFace base ha angleOk allPoints f ((faces[f]?).getD (0, 0, 0))
    i ∈ (s.nearMesh faces base ha angleOk allPoints op order).indices ↔
      (match op with
        | .add => i ∈ s.indices ∨ (i < s.n ∧ Q i = true)
        | .remove => i ∈ s.indices ∧ Q i = false
        | .keep => i ∈ s.indices ∧ Q i = true) := by
  intro Q
  obtain ⟨e, _⟩ := nearPasses_spec faces base ha angleOk allPoints order [] (memoInv_nil base)
  unfold Filter.nearMesh
  rw [e]
  cases op
  · rw [mutatePassList_add]
    simp only [List.mem_filter, horder, toCheck_mem]
    constructor
    · rintro (h | ⟨⟨h1, _⟩, h3⟩)
      · exact Or.inl h
      · exact Or.inr ⟨h1, h3⟩
    · rintro (h | ⟨h1, h2⟩)
      · exact Or.inl h
      · by_cases hm : i ∈ s.indices
        · exact Or.inl hm
        · exact Or.inr ⟨⟨h1, hm⟩, h2⟩
  · rw [mutatePassList_remove]
    simp only [List.mem_filter, horder, toCheck_mem]
    constructor
    · rintro ⟨h1, h2⟩
      refine ⟨h1, ?_⟩
      cases hq : Q i
      · rfl
      · exact absurd ⟨h1, hq⟩ h2
    · rintro ⟨h1, h2⟩
      exact ⟨h1, fun h => by
        have h3 : Q i = true := h.2
        rw [h2] at h3; exact absurd h3 (by simp)⟩
  · rw [mutatePassList_keep]
    simp only [List.mem_filter, horder, toCheck_mem]
    constructor
    · rintro ⟨h1, _, h3⟩; exact ⟨h1, h3⟩
    · rintro ⟨h1, h2⟩; exact ⟨h1, h1, h2⟩

end Near

/-! Regression witness for the defect fixed in /repo (D14): the pre-fix memo stored the final,
    face-dependent verdict per vertex, so the answer for a face depended on which face had asked
    about the shared vertex first.  Vertex 0 passes the face-independent part; the angle test is
    satisfied for face A (`true`) and not for face B (`false`). -/
theorem memo_prefix_order_dependent :
    let base : Nat → Option (Option Unit) := fun _ => some (some ())
    -- ask for face A first, then for face B …
    let ab := (nearCheck_prefix base true (fun _ => false)
                (nearCheck_prefix base true (fun _ => true) [] 0).2 0).1
    -- … or for face B alone
    let b := (nearCheck_prefix base true (fun _ => false) [] 0).1
    ab = true ∧ b = false := by decide

/-- the fixed memo gives face B the same answer in both orders -/
example :
    let base : Nat → Option (Option Unit) := fun _ => some (some ())
    (nearCheck base true (fun _ => false) (nearCheck base true (fun _ => true) [] 0).2 0).1 = false ∧
    (nearCheck base true (fun _ => false) [] 0).1 = false := by decide

/-! ### the mesh built from a selection -/

theorem mem_insertNat (x y : Nat) (l : List Nat) : x ∈ insertNat y l ↔ x = y ∨ x ∈ l := by
  induction l with
  | nil => simp [insertNat]
  | cons a r ih =>
    unfold insertNat
    split_ifs with h1 h2
    · simp
    · have : y = a := by simpa using h2
      subst this; simp
    · simp only [List.mem_cons, ih]; tauto

theorem posOf_get (l : List Nat) (v : Nat) (h : v ∈ l) : l[posOf l v]? = some v := by
  induction l with
  | nil => simp at h
  | cons a r ih =>
    unfold posOf
    by_cases hav : a = v
    · subst hav; simp
    · have hr : v ∈ r := by
        rcases List.mem_cons.mp h with h | h
        · exact absurd h.symm hav
        · exact h
      have : (a != v) = true := by simpa using hav
      simp only [List.takeWhile_cons, this, if_true, List.length_cons, List.getElem?_cons_succ]
      exact ih hr

theorem uniqueVertices_mem (faces : List Face) (idx : List Nat) (v : Nat) :
    v ∈ uniqueVertices faces idx ↔ ∃ i ∈ idx, ∃ t, faces[i]? = some t ∧ (v = t.1 ∨ v = t.2.1 ∨ v = t.2.2) := by
  unfold uniqueVertices
  suffices h : ∀ (acc : List Nat),
      v ∈ idx.foldl (fun acc i => match faces[i]? with
        | some t => insertNat t.2.2 (insertNat t.2.1 (insertNat t.1 acc))
        | none => acc) acc ↔
      v ∈ acc ∨ ∃ i ∈ idx, ∃ t, faces[i]? = some t ∧ (v = t.1 ∨ v = t.2.1 ∨ v = t.2.2) by
    have h0 := h []
    simp only [List.not_mem_nil, false_or] at h0
    exact h0
  induction idx with
  | nil => intro acc; simp
  | cons i r ih =>
    intro acc
    simp only [List.foldl_cons, ih, List.mem_cons, exists_eq_or_imp]
    cases hf : faces[i]? with
    | none => simp
    | some t =>
      simp only [mem_insertNat, Option.some.injEq, exists_eq_left']
      constructor
      · rintro ((h | h | h | h) | h)
        · exact Or.inr (Or.inl (Or.inr (Or.inr h)))
        · exact Or.inr (Or.inl (Or.inr (Or.inl h)))
        · exact Or.inr (Or.inl (Or.inl h))
        · exact Or.inl h
        · exact Or.inr (Or.inr h)
      · rintro (h | (h | h | h) | h)
        · exact Or.inl (Or.inr (Or.inr (Or.inr h)))
        · exact Or.inl (Or.inr (Or.inr (Or.inl h)))
        · exact Or.inl (Or.inr (Or.inl h))
        · exact Or.inl (Or.inl h)
        · exact Or.inr h

/-- The mesh built from a selection has exactly the vertices the selected triangles use, and each
    new triangle refers back to the original three vertices in the original order (same
    coordinates, same winding). -/
theorem createFromIndices_faithful (faces : List Face) (idx : List Nat) (i : Nat) (t : Face)
    (hi : i ∈ idx) (ht : faces[i]? = some t) :
    let keep := (createFromIndices faces idx).1
    keep[posOf keep t.1]? = some t.1 ∧ keep[posOf keep t.2.1]? = some t.2.1 ∧
    keep[posOf keep t.2.2]? = some t.2.2 := by
  intro keep
  have hm : ∀ v, (v = t.1 ∨ v = t.2.1 ∨ v = t.2.2) → v ∈ keep := fun v hv =>
    (uniqueVertices_mem faces idx v).mpr ⟨i, hi, t, ht, hv⟩
  exact ⟨posOf_get _ _ (hm _ (Or.inl rfl)), posOf_get _ _ (hm _ (Or.inr (Or.inl rfl))),
    posOf_get _ _ (hm _ (Or.inr (Or.inr rfl)))⟩

theorem createFromIndices_only_used (faces : List Face) (idx : List Nat) (v : Nat)
    (hv : v ∈ (createFromIndices faces idx).1) :
    ∃ i ∈ idx, ∃ t, faces[i]? = some t ∧ (v = t.1 ∨ v = t.2.1 ∨ v = t.2.2) :=
  (uniqueVertices_mem faces idx v).mp hv

theorem createFromIndices_count (faces : List Face) (idx : List Nat) (h : ∀ i ∈ idx, i < faces.length) :
    (createFromIndices faces idx).2.length = idx.length := by
  unfold createFromIndices
  simp only
  generalize uniqueVertices faces idx = keep
  induction idx with
  | nil => rfl
  | cons i r ih =>
    have hi : i < faces.length := h i (by simp)
    simp only [List.filterMap_cons, List.getElem?_eq_getElem hi, Option.map_some, List.length_cons]
    rw [ih (fun j hj => h j (List.mem_cons_of_mem _ hj))]

end C14
