import Engeom.Props.C09
import Engeom.Props.C09T
import Engeom.Lemmas.RealScalar
/-
  C09 — a theorem about the REGENERATED `Series1::best_fit_line` (over ℝ): the slope and intercept it
  returns solve the two normal equations of the degree-one least-squares problem — `n·b + Σx·m = Σy` and
  `Σx·b + Σx²·m = Σxy` — whenever the abscissae are not all equal (`n Σx² ≠ (Σx)²`).  By
  `C09.normal_eq_optimal` a solution of the normal equations minimises the sum of squares.
  Composition of the translation tie (`C09T.best_fit_line_eq`) with `C09.bestFitLine_normal_equations`;
  a change of the sums or of the closed form in the Rust source changes the regenerated definition and
  this proof is re-checked against it.
-/
namespace C09U

/-- the sums the code forms -/
noncomputable def sumL (l : List ℝ) : ℝ := l.foldl (· + ·) 0

theorem best_fit_line_solves_normal_equations (s : SeriesXY ℝ)
    (hn : (s.x.length : ℝ) ≠ 0)
    (hd : (s.x.length : ℝ) * sumL (s.x.map fun x => x * x) - sumL s.x * sumL s.x ≠ 0) :
    let mb := GenRs.best_fit_line s
    (s.x.length : ℝ) * mb.2 + sumL s.x * mb.1 = sumL s.y ∧
    sumL s.x * mb.2 + sumL (s.x.map fun x => x * x) * mb.1 = sumL (List.zipWith (· * ·) s.x s.y) := by
  intro mb
  have hmb : mb = bestFitLine C09T.ofNatS s.x s.y := C09T.best_fit_line_eq s
  have hcast : (C09T.ofNatS s.x.length : ℝ) = (s.x.length : ℝ) := by
    unfold C09T.ofNatS
    rw [ofRatR]
    simp
  have key := C09.bestFitLine_normal_equations (s.x.length : ℝ) (sumL s.x) (sumL s.y)
    (sumL (s.x.map fun x => x * x)) (sumL (List.zipWith (· * ·) s.x s.y)) hn hd
  rw [hmb]
  unfold bestFitLine
  simp only [hcast]
  exact key
/-! ### the circle fit's least-squares problem (regenerated pieces of `CircleFit`) -/

/-- After EVERY parameter update the outlier weights are recomputed, from the residuals of the new parameters, with the
    mode the fit was asked for (the translator's pattern is the whole body of `set_params`: with the call removed or
    moved it does not match) — so the samples retained are those retained at the current circle, not at the guess. -/
theorem weights_recomputed_with_the_fit_mode (mode : Nat) : GenRs.fit_reweight_mode mode = mode := rfl

/-- a sample of weight 1 contributes its radial residual, a sample of weight 0 nothing: the sum of squares the solver
    minimises is that of the retained samples only -/
theorem weighted_residual (r : ℝ) : GenRs.fit_weighted_residual r 1 = r ∧ GenRs.fit_weighted_residual r 0 = 0 := by
  unfold GenRs.fit_weighted_residual
  constructor <;> ring

end C09U
