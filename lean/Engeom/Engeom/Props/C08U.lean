import Engeom.Props.C08
import Engeom.Props.C08T
/-
  C08 — stated about the REGENERATED `to_wpr` (src/geom3/align3/rotations.rs, over ℝ): away from gimbal lock it
  recovers the Euler angles of `Rx·Ry·Rz` exactly; at the north pole the angles it returns rebuild the same
  matrix.  (`RcParams3::from_initial` starts every 3-D alignment from these angles.)
-/
namespace C08U
open Real

theorem to_wpr_recovers_euler_angles (rx ry rz : ℝ) (hx : -π < rx ∧ rx ≤ π) (hz : -π < rz ∧ rz ≤ π)
    (hy : -(π / 2) < ry ∧ ry < π / 2) (hc : wprEps ≤ Real.cos ry) :
    GenRs.to_wpr (eulerMat rx ry rz) = (rx, ry, rz) := by
  rw [C08T.to_wpr_eq]; exact C08.toWpr_eulerMat rx ry rz hx hz hy hc

theorem to_wpr_gimbal_roundtrip (rx rz : ℝ) :
    let m := eulerMat rx (π / 2) rz
    eulerMat (GenRs.to_wpr m).1 (GenRs.to_wpr m).2.1 (GenRs.to_wpr m).2.2 = m := by
  intro m
  rw [C08T.to_wpr_eq]; exact C08.toWpr_gimbal rx rz
end C08U
