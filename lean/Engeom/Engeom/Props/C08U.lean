import Engeom.Props.C08
import Engeom.Props.C08T
/-
  C08 — stated about the REGENERATED `to_wpr` (src/geom3/align3/rotations.rs, over ℝ): away from gimbal lock it
  recovers the Euler angles of `Rx·Ry·Rz` exactly; at the north pole the angles it returns rebuild the same
  matrix.  (`RcParams3::from_initial` starts every 3-D alignment from these angles.)
-/
namespace C08U
open Real

theorem to_wpr_recovers_euler_angles (rx ry rz : ℝ) (hx : -π < rx ∧ rx ≤ π) (hz : -π < rz ∧ rz ≤ π)
    (hy : -(π / 2) < ry ∧ ry < π / 2) (hc : wprEps ≤ Real.cos ry) :
    GenRs.to_wpr (eulerMat rx ry rz) = (rx, ry, rz) := by
  rw [C08T.to_wpr_eq]; exact C08.toWpr_eulerMat rx ry rz hx hz hy hc

theorem to_wpr_gimbal_roundtrip (rx rz : ℝ) :
    let m := eulerMat rx (π / 2) rz
    eulerMat (GenRs.to_wpr m).1 (GenRs.to_wpr m).2.1 (GenRs.to_wpr m).2.2 = m := by
  intro m
  rw [C08T.to_wpr_eq]; exact C08.toWpr_gimbal rx rz
/-! ### which pairs `point_point_jacobian` treats as coincident (regenerated guard) -/

/-- the row is zeroed only for pairs closer than 1e-8: a squared separation of at least `(1e-8)²` is never
    "coincident" — a pair 1e-6 or 1e-4 apart keeps its true derivative -/
theorem pp_coincident_only_below_1e_8 (m : V3 ℝ) (h : (1 : ℝ) / 10 ^ 16 ≤ V3.normSq m) :
    GenRs.pp_coincident m = false := by
  unfold GenRs.pp_coincident
  rw [ofRatR]
  simp only [decide_eq_false_iff_not, not_lt]
  norm_num at h ⊢
  exact h

/-- and an exactly coincident pair is -/
theorem pp_coincident_at_zero : GenRs.pp_coincident (⟨0, 0, 0⟩ : V3 ℝ) = true := by
  unfold GenRs.pp_coincident
  rw [ofRatR]
  simp [V3.normSq, V3.dot]

/-! ### `RcParams2::set` / `RcParams3::set` (whole-body patterns) -/

/-- an update stores exactly the parameters it is given and then recomputes the whole cached state (`compute()` is the
    only other statement the pattern allows): transform, inverse, rotation matrices and moved rotation centre always
    belong to the LAST update, whatever changed since the one before -/
theorem set_stores_the_given_parameters (x : ℝ) : GenRs.rc2_set_stored x = x ∧ GenRs.rc3_set_stored x = x := ⟨rfl, rfl⟩

/-! ### `compute()`: the moved rotation centre (regenerated last statement; `apply` is the action of the freshly built
transform on a point) -/

/-- the cached moved centre is the image of the rotation centre under the FULL transform just built — translation
    parameters included — in 2-D and in 3-D; the Jacobian rows take their lever arms from it -/
theorem current_rc_is_the_image_of_the_centre (a3 : V3 ℝ → V3 ℝ) (c3 : V3 ℝ) (a2 : V2 ℝ → V2 ℝ) (c2 : V2 ℝ) :
    GenRs.rc3_current_rc a3 c3 = a3 c3 ∧ GenRs.rc2_current_rc a2 c2 = a2 c2 := ⟨rfl, rfl⟩

/-! ### `RotationMatrices::from_rotation` (whole-body pattern) -/

/-- every rotation — however small — is decomposed by `to_wpr` and rebuilt from exactly the angles it returned, in that
    order; together with `to_wpr_roundtrip` / `to_wpr_gimbal_roundtrip` above: the rebuilt matrices are the rotation's -/
theorem from_rotation_uses_the_decomposed_angles (w p r : ℝ) : GenRs.from_rotation_angles w p r = (w, p, r) := rfl

end C08U
