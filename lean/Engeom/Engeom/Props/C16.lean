import Engeom.Model.Metrology
import Engeom.Lemmas.RealScalar
import Mathlib.Tactic.Linarith
import Mathlib.Tactic.Ring
import Mathlib.Order.Basic
/-
  C16 — Deviations equal signed distance and aggregates track their contents.
-/

namespace C16

/-! ### deviation set: cached extremes for every construction / push history -/

section DevSet
variable {α : Type} [LinearOrder α]

/-- The cached indices point at a true maximum / minimum of everything held; both are absent
    exactly when the set is empty. -/
def DevSetInv (s : DevSet α) : Prop :=
  (s.values = [] → s.maxIdx = none ∧ s.minIdx = none) ∧
  (s.values ≠ [] → (∃ i m, s.maxIdx = some i ∧ s.values[i]? = some m ∧ ∀ w ∈ s.values, w ≤ m) ∧
                   (∃ i m, s.minIdx = some i ∧ s.values[i]? = some m ∧ ∀ w ∈ s.values, m ≤ w))

theorem argmaxLastAux_spec (vs pre : List α) (bi : Nat) (bv : α)
    (hb : pre[bi]? = some bv) (hmax : ∀ w ∈ pre, w ≤ bv) :
    ∃ m, (pre ++ vs)[argmaxLastAux vs pre.length bi bv]? = some m ∧ ∀ w ∈ pre ++ vs, w ≤ m := by
  induction vs generalizing pre bi bv with
  | nil =>
    refine ⟨bv, ?_, ?_⟩
    · simpa [argmaxLastAux] using hb
    · simpa using hmax
  | cons v vs ih =>
    unfold argmaxLastAux
    split_ifs with h
    · have := ih (pre ++ [v]) bi bv
        (by rw [List.getElem?_append_left (by
              have := List.getElem?_eq_some_iff.mp hb; exact this.1)]; exact hb)
        (by intro w hw; rcases List.mem_append.mp hw with hw | hw
            · exact hmax w hw
            · have : w = v := by simpa using hw
              rw [this]; exact h.le)
      simpa [List.append_assoc] using this
    · have := ih (pre ++ [v]) pre.length v (by simp)
        (by intro w hw; rcases List.mem_append.mp hw with hw | hw
            · exact (hmax w hw).trans (not_lt.mp h)
            · have : w = v := by simpa using hw
              rw [this])
      simpa [List.append_assoc] using this

theorem argminFirstAux_spec (vs pre : List α) (bi : Nat) (bv : α)
    (hb : pre[bi]? = some bv) (hmin : ∀ w ∈ pre, bv ≤ w) :
    ∃ m, (pre ++ vs)[argminFirstAux vs pre.length bi bv]? = some m ∧ ∀ w ∈ pre ++ vs, m ≤ w := by
  induction vs generalizing pre bi bv with
  | nil =>
    refine ⟨bv, ?_, ?_⟩
    · simpa [argminFirstAux] using hb
    · simpa using hmin
  | cons v vs ih =>
    unfold argminFirstAux
    split_ifs with h
    · have := ih (pre ++ [v]) pre.length v (by simp)
        (by intro w hw; rcases List.mem_append.mp hw with hw | hw
            · exact h.le.trans (hmin w hw)
            · have : w = v := by simpa using hw
              rw [this])
      simpa [List.append_assoc] using this
    · have := ih (pre ++ [v]) bi bv
        (by rw [List.getElem?_append_left (by
              have := List.getElem?_eq_some_iff.mp hb; exact this.1)]; exact hb)
        (by intro w hw; rcases List.mem_append.mp hw with hw | hw
            · exact hmin w hw
            · have : w = v := by simpa using hw
              rw [this]; exact not_lt.mp h)
      simpa [List.append_assoc] using this

theorem devset_new_inv (vs : List α) : DevSetInv (DevSet.new vs) := by
  cases vs with
  | nil => exact ⟨fun _ => ⟨rfl, rfl⟩, fun h => absurd rfl h⟩
  | cons v vs =>
    refine ⟨fun h => by simp [DevSet.new] at h, fun _ => ⟨?_, ?_⟩⟩
    · obtain ⟨m, h1, h2⟩ := argmaxLastAux_spec vs [v] 0 v (by simp) (by simp)
      exact ⟨_, m, rfl, by simpa [DevSet.new] using h1, by simpa [DevSet.new] using h2⟩
    · obtain ⟨m, h1, h2⟩ := argminFirstAux_spec vs [v] 0 v (by simp) (by simp)
      exact ⟨_, m, rfl, by simpa [DevSet.new] using h1, by simpa [DevSet.new] using h2⟩

theorem devset_push_inv (s : DevSet α) (d : α) (h : DevSetInv s) : DevSetInv (s.push d) := by
  refine ⟨fun he => by simp [DevSet.push] at he, fun _ => ?_⟩
  by_cases hv : s.values = []
  · obtain ⟨h1, h2⟩ := h.1 hv
    simp only [DevSet.push, h1, h2, hv]
    exact ⟨⟨0, d, by simp, by simp, by simp⟩, ⟨0, d, by simp, by simp, by simp⟩⟩
  · obtain ⟨⟨i, m, hi, hm, hmax⟩, ⟨j, n, hj, hn, hmin⟩⟩ := h.2 hv
    have hil : i < s.values.length := (List.getElem?_eq_some_iff.mp hm).1
    have hjl : j < s.values.length := (List.getElem?_eq_some_iff.mp hn).1
    constructor
    · simp only [DevSet.push, hi, getAt, hm, Option.getD_some]
      split_ifs with hlt
      · refine ⟨_, d, rfl, by simp, ?_⟩
        intro w hw; rcases List.mem_append.mp hw with hw | hw
        · exact (hmax w hw).trans hlt.le
        · have : w = d := by simpa using hw
          rw [this]
      · refine ⟨i, m, rfl, by rw [List.getElem?_append_left hil]; exact hm, ?_⟩
        intro w hw; rcases List.mem_append.mp hw with hw | hw
        · exact hmax w hw
        · have : w = d := by simpa using hw
          rw [this]; exact not_lt.mp hlt
    · simp only [DevSet.push, hj, getAt, hn, Option.getD_some]
      split_ifs with hlt
      · refine ⟨_, d, rfl, by simp, ?_⟩
        intro w hw; rcases List.mem_append.mp hw with hw | hw
        · exact hlt.le.trans (hmin w hw)
        · have : w = d := by simpa using hw
          rw [this]
      · refine ⟨j, n, rfl, by rw [List.getElem?_append_left hjl]; exact hn, ?_⟩
        intro w hw; rcases List.mem_append.mp hw with hw | hw
        · exact hmin w hw
        · have : w = d := by simpa using hw
          rw [this]; exact not_lt.mp hlt

theorem devset_empty_inv : DevSetInv (DevSet.empty : DevSet α) :=
  ⟨fun _ => ⟨rfl, rfl⟩, fun h => absurd rfl h⟩

/-- After ANY sequence of constructions and pushes the invariant holds. -/
theorem devset_history_inv (ops : List (DevOp α)) :
    DevSetInv (ops.foldl DevSet.step (DevSet.empty : DevSet α)) := by
  suffices h : ∀ s : DevSet α, DevSetInv s → DevSetInv (ops.foldl DevSet.step s) from h _ devset_empty_inv
  induction ops with
  | nil => intro s hs; exact hs
  | cons op ops ih =>
    intro s hs
    apply ih
    cases op with
    | new vs => exact devset_new_inv vs
    | push d => exact devset_push_inv s d hs

/-- …hence `max` / `min` report the true extremes of everything the set holds. -/
theorem devset_max_is_max (s : DevSet α) (h : DevSetInv s) (hne : s.values ≠ []) :
    ∃ m, s.max? = some m ∧ m ∈ s.values ∧ ∀ w ∈ s.values, w ≤ m := by
  obtain ⟨⟨i, m, hi, hm, hmax⟩, _⟩ := h.2 hne
  exact ⟨m, by simp [DevSet.max?, hi, hm], List.mem_of_getElem? hm, hmax⟩

theorem devset_min_is_min (s : DevSet α) (h : DevSetInv s) (hne : s.values ≠ []) :
    ∃ m, s.min? = some m ∧ m ∈ s.values ∧ ∀ w ∈ s.values, m ≤ w := by
  obtain ⟨_, ⟨i, m, hi, hm, hmin⟩⟩ := h.2 hne
  exact ⟨m, by simp [DevSet.min?, hi, hm], List.mem_of_getElem? hm, hmin⟩

end DevSet

section Zone
variable {F : Type} [Field F] [LinearOrder F] [IsStrictOrderedRing F]

theorem sabs_eq_abs (a : F) : sabs a = |a| := by
  unfold sabs; split_ifs with h
  · exact (abs_of_neg h).symm
  · exact (abs_of_nonneg (not_lt.mp h)).symm

theorem smax_eq_max (a b : F) : smax a b = max a b := by
  unfold smax; split_ifs with h
  · exact (max_eq_right h).symm
  · exact (max_eq_left (not_le.mp h).le).symm

theorem smin_eq_min (a b : F) : smin a b = min a b := by
  unfold smin; split_ifs with h
  · exact (min_eq_left h).symm
  · exact (min_eq_right (not_le.mp h).le).symm

/-- The symmetric zone is twice the largest absolute deviation held. -/
theorem devset_zone (s : DevSet F) (h : DevSetInv s) (hne : s.values ≠ []) :
    (∀ w ∈ s.values, 2 * |w| ≤ s.zone) ∧ (∃ w ∈ s.values, s.zone = 2 * |w|) := by
  obtain ⟨mx, h1, h1m, h1b⟩ := devset_max_is_max s h hne
  obtain ⟨mn, h2, h2m, h2b⟩ := devset_min_is_min s h hne
  have hz : s.zone = max |mx| |mn| * 2 := by
    simp [DevSet.zone, h1, h2, sabs_eq_abs, smax_eq_max]
  constructor
  · intro w hw
    have a1 := h1b w hw
    have a2 := h2b w hw
    have : |w| ≤ max |mx| |mn| := by
      rcases le_total 0 w with hw0 | hw0
      · rw [abs_of_nonneg hw0]
        exact (a1.trans (le_abs_self mx)).trans (le_max_left _ _)
      · rw [abs_of_nonpos hw0]
        exact ((neg_le_neg a2).trans (neg_le_abs mn)).trans (le_max_right _ _)
    rw [hz]; linarith
  · rcases le_total |mn| |mx| with hle | hle
    · exact ⟨mx, h1m, by rw [hz, max_eq_left hle]; ring⟩
    · exact ⟨mn, h2m, by rw [hz, max_eq_right hle]; ring⟩

end Zone

/-! ### point cloud: the three lists stay the same length for every history -/

section Cloud
variable {P N C : Type}

theorem cloud_tryNew_inv (ps : List P) (ns : Option (List N)) (cs : Option (List C)) (c : Cloud P N C)
    (h : Cloud.tryNew ps ns cs = some c) : c.Inv := by
  unfold Cloud.tryNew at h
  split_ifs at h with h1 h2
  have hc : c = ⟨ps, ns, cs⟩ := (Option.some.inj h).symm
  subst hc
  constructor
  · intro l hl; subst hl; simpa using h1
  · intro l hl; subst hl; simpa using h2

theorem cloud_empty_inv (a b : Bool) : (Cloud.empty a b : Cloud P N C).Inv := by
  unfold Cloud.empty Cloud.Inv
  constructor <;> intro l hl <;> split_ifs at hl <;> simp_all

theorem cloud_append_inv (c c' : Cloud P N C) (p : P) (n : Option N) (col : Option C)
    (hc : c.Inv) (h : c.append p n col = some c') : c'.Inv := by
  unfold Cloud.append at h
  split_ifs at h with h1 h2
  have e : c' = _ := (Option.some.inj h).symm
  subst e
  obtain ⟨i1, i2⟩ := hc
  constructor
  · intro l hl
    dsimp only at hl ⊢
    cases hn : c.normals <;> cases n <;> simp_all
    subst hl; simp [i1]
  · intro l hl
    dsimp only at hl ⊢
    cases hn : c.colors <;> cases col <;> simp_all
    subst hl; simp [i2]

theorem cloud_merge_inv (c o c' : Cloud P N C) (hc : c.Inv) (ho : o.Inv)
    (h : c.merge o = some c') : c'.Inv := by
  unfold Cloud.merge at h
  split_ifs at h with h1 h2
  have e : c' = _ := (Option.some.inj h).symm
  subst e
  obtain ⟨i1, i2⟩ := hc
  obtain ⟨j1, j2⟩ := ho
  constructor
  · intro l hl
    dsimp only at hl ⊢
    cases hn : c.normals <;> cases hm : o.normals <;> simp_all
    subst hl; simp; omega
  · intro l hl
    dsimp only at hl ⊢
    cases hn : c.colors <;> cases hm : o.colors <;> simp_all
    subst hl; simp; omega

theorem cloud_select_inv (c c' : Cloud P N C) (idx : List Nat)
    (h : c.createFromIndices idx = some c') : c'.Inv := by
  unfold Cloud.createFromIndices at h
  split at h
  · exact absurd h (by simp)
  · exact cloud_tryNew_inv _ _ _ _ h

/-- Rejected operations change nothing (by construction of `step`) and accepted ones preserve
    the invariant — so it holds after every history, whatever the mix. -/
theorem cloud_step_inv (c : Cloud P N C) (op : Cloud.Op P N C) (hc : c.Inv)
    (hop : ∀ o, op = .merge o → o.Inv) : (c.step op).1.Inv ∧ ((c.step op).2 = false → (c.step op).1 = c) := by
  cases op with
  | append p n col =>
    cases h : c.append p n col with
    | none => simp only [Cloud.step, h]; exact ⟨hc, fun _ => trivial⟩
    | some c' => simp only [Cloud.step, h]; exact ⟨cloud_append_inv c c' p n col hc h, fun hf => by simp at hf⟩
  | merge o =>
    cases h : c.merge o with
    | none => simp only [Cloud.step, h]; exact ⟨hc, fun _ => trivial⟩
    | some c' => simp only [Cloud.step, h]; exact ⟨cloud_merge_inv c o c' hc (hop o rfl) h, fun hf => by simp at hf⟩
  | select idx =>
    cases h : c.createFromIndices idx with
    | none => simp only [Cloud.step, h]; exact ⟨hc, fun _ => trivial⟩
    | some c' => simp only [Cloud.step, h]; exact ⟨cloud_select_inv c c' idx h, fun hf => by simp at hf⟩

theorem cloud_history_inv (ops : List (Cloud.Op P N C)) (c : Cloud P N C) (hc : c.Inv)
    (hops : ∀ op ∈ ops, ∀ o, op = .merge o → o.Inv) :
    (ops.foldl (fun s op => (s.step op).1) c).Inv := by
  induction ops generalizing c with
  | nil => exact hc
  | cons op ops ih =>
    apply ih
    · exact (cloud_step_inv c op hc (hops op (by simp))).1
    · intro op' h'; exact hops op' (by simp [h'])

end Cloud

/-! ### tolerance map: zone of the greatest breakpoint not above x -/

section TolMap
variable {α : Type} [LinearOrder α]

theorem countLe_spec (vs : List α) (hs : vs.Pairwise (· ≤ ·)) (x : α) :
    countLe vs x ≤ vs.length ∧ (∀ j, j < countLe vs x → ∀ v, vs[j]? = some v → v ≤ x) ∧
    (∀ j, countLe vs x ≤ j → ∀ v, vs[j]? = some v → x < v) := by
  induction vs with
  | nil => simp [countLe]
  | cons a vs ih =>
    have hs' := (List.pairwise_cons.mp hs)
    obtain ⟨i1, i2, i3⟩ := ih hs'.2
    unfold countLe at *
    by_cases ha : a ≤ x
    · simp only [List.takeWhile_cons, ha, decide_true, if_true, List.length_cons]
      refine ⟨by omega, ?_, ?_⟩
      · intro j hj v hv
        cases j with
        | zero => simp at hv; rw [← hv]; exact ha
        | succ j => exact i2 j (by omega) v (by simpa using hv)
      · intro j hj v hv
        cases j with
        | zero => omega
        | succ j => exact i3 j (by omega) v (by simpa using hv)
    · have e0 : (List.takeWhile (fun v => decide (v ≤ x)) (a :: vs)).length = 0 := by
        simp [List.takeWhile_cons, ha]
      rw [e0]
      refine ⟨by omega, by intro j hj; omega, ?_⟩
      intro j _ v hv
      have hax := not_le.mp ha
      cases j with
      | zero => simp at hv; rw [← hv]; exact hax
      | succ j =>
        have : v ∈ vs := List.mem_of_getElem? (by simpa using hv)
        exact hax.trans_le (hs'.1 v this)

/-- `get` returns zone `i` exactly when breakpoint `i` is the greatest one not above `x`:
    the last zone beyond the end, and no zone at all below the start. -/
theorem tolmap_get_spec (vs : List α) (hs : vs.Pairwise (· ≤ ·)) (x : α) (i : Nat) :
    tolMapGet vs x = some i ↔
      (∃ v, vs[i]? = some v ∧ v ≤ x) ∧ (∀ j v, i < j → vs[j]? = some v → x < v) := by
  obtain ⟨c1, c2, c3⟩ := countLe_spec vs hs x
  cases hl : vs.getLast? with
  | none =>
    have : vs = [] := List.getLast?_eq_none_iff.mp hl
    subst this
    simp [tolMapGet]
  | some last =>
    have hne : vs ≠ [] := by intro h; subst h; simp at hl
    have hlen : 0 < vs.length := List.length_pos_iff.mpr hne
    have hlast : vs[vs.length - 1]? = some last := by
      rw [List.getLast?_eq_getElem?] at hl; exact hl
    obtain ⟨first, hfirst⟩ : ∃ f, vs.head? = some f := by
      cases vs with
      | nil => exact absurd rfl hne
      | cons a t => exact ⟨a, rfl⟩
    have hfirst0 : vs[0]? = some first := by rw [← List.head?_eq_getElem?]; exact hfirst
    have hemp : vs.isEmpty = false := by cases vs <;> simp_all
    unfold tolMapGet indexOf
    simp only [hemp, hl, hfirst]
    by_cases hk : countLe vs x = 0
    · -- below the start: nothing
      have hx : x < first := c3 0 (by omega) first hfirst0
      simp only [hk, if_true, hx, Bool.false_eq_true, if_false]
      constructor
      · intro h; exact absurd h (by simp)
      · rintro ⟨⟨v, hv, hvx⟩, _⟩
        have := c3 i (by omega) v hv
        exact absurd hvx (not_le.mpr this)
    · simp only [hk, if_false, Bool.false_eq_true]
      by_cases hb : last < x
      · -- beyond the end: the last zone
        have hnx : ¬ x < first := by
          have h0 : first ≤ x := c2 0 (by omega) first hfirst0
          exact not_lt.mpr h0
        simp only [hb, if_true, hnx, if_false, Option.some.injEq]
        constructor
        · intro h; subst h
          refine ⟨⟨last, hlast, hb.le⟩, ?_⟩
          intro j v hj hv
          have := (List.getElem?_eq_some_iff.mp hv).1
          omega
        · rintro ⟨⟨v, hv, _⟩, h2⟩
          have hi := (List.getElem?_eq_some_iff.mp hv).1
          by_contra hne'
          have : i < vs.length - 1 := by omega
          exact absurd (h2 (vs.length - 1) last this hlast) (not_lt.mpr hb.le)
      · simp only [hb, if_false, Option.some.injEq]
        have hcl : countLe vs x - 1 < vs.length := by omega
        constructor
        · intro h; subst h
          obtain ⟨v, hv⟩ : ∃ v, vs[countLe vs x - 1]? = some v := ⟨vs[countLe vs x - 1], by simp [hcl]⟩
          exact ⟨⟨v, hv, c2 _ (by omega) v hv⟩, fun j w hj hw => c3 j (by omega) w hw⟩
        · rintro ⟨⟨v, hv, hvx⟩, h2⟩
          have hi := (List.getElem?_eq_some_iff.mp hv).1
          by_contra hne'
          rcases Nat.lt_or_gt_of_ne hne' with hlt | hgt
          · -- i > countLe-1 : then vs[i] > x
            exact absurd hvx (not_le.mpr (c3 i (by omega) v hv))
          · -- i < countLe - 1: then element countLe-1 is ≤ x but should be > x
            obtain ⟨w, hw⟩ : ∃ w, vs[countLe vs x - 1]? = some w := ⟨vs[countLe vs x - 1], by simp [hcl]⟩
            exact absurd (c2 _ (by omega) w hw) (not_le.mpr (h2 _ w hgt hw))

/-- Regression witness for the defect fixed in /repo (D8): the pre-fix code returned the LAST zone
    below the first breakpoint. -/
theorem tolmap_prefix_below_start : tolMapGet_prefix [1, 2, 3] (0 : Nat) = some 2 := by decide

example : tolMapGet [1, 2, 3] (0 : Nat) = none := by decide
example : tolMapGet [1, 2, 3] (2 : Nat) = some 1 := by decide
example : tolMapGet [1, 2, 3] (7 : Nat) = some 2 := by decide

end TolMap

/-! ### deviations: magnitude, sign, reconstruction (over ℝ) -/

section Deviation

theorem devTolCurve_pos : (0 : ℝ) < devTolCurve := by
  unfold devTolCurve; rw [ofRatR]; norm_num [Gen.DEV_NORMAL_TOL_CURVE_num, Gen.DEV_NORMAL_TOL_CURVE_den]

theorem devTolMesh_pos : (0 : ℝ) < devTolMesh := by
  unfold devTolMesh; rw [ofRatR]; norm_num [Gen.DEV_NORMAL_TOL_MESH_num, Gen.DEV_NORMAL_TOL_MESH_den]

/-- 2-D, measured point at least the threshold away from the reference point: the deviation has
    magnitude equal to the distance, the sign of the side of the normal the point is on, and
    reconstructs the measured point from reference point, direction and value. -/
theorem curve_dev_far (p0 n q : V2 ℝ) (hfar : devTolCurve ≤ V2.norm (V2.sub q p0)) :
    |(pointCurveDeviation p0 n q).2| = V2.norm (V2.sub q p0) ∧
    (V2.dot (V2.sub q p0) n < 0 → (pointCurveDeviation p0 n q).2 < 0) ∧
    (0 ≤ V2.dot (V2.sub q p0) n → 0 < (pointCurveDeviation p0 n q).2) ∧
    V2.add p0 (V2.smul (pointCurveDeviation p0 n q).2 (pointCurveDeviation p0 n q).1) = q := by
  have hnot : ¬ V2.norm (V2.sub q p0) < devTolCurve := not_lt.mpr hfar
  have hLpos : 0 < V2.norm (V2.sub q p0) := lt_of_lt_of_le devTolCurve_pos hfar
  obtain ⟨qx, qy⟩ := q
  obtain ⟨px, py⟩ := p0
  obtain ⟨nx, ny⟩ := n
  simp only [V2.norm, V2.normSq, V2.dot, V2.sub, sqrtR] at hLpos hnot ⊢
  set vx := qx - px with hvx
  set vy := qy - py with hvy
  set L := Real.sqrt (vx * vx + vy * vy) with hL
  have hLL : L * L = vx * vx + vy * vy := Real.mul_self_sqrt (by nlinarith [mul_self_nonneg vx, mul_self_nonneg vy])
  have hLne : L ≠ 0 := ne_of_gt hLpos
  simp only [pointCurveDeviation, curveDevNormal, V2.norm, V2.normSq, V2.dot, V2.sub, sqrtR, ← hvx, ← hvy, ← hL,
    if_neg hnot]
  by_cases hs : vx * nx + vy * ny < 0
  · simp only [if_pos hs, V2.normalize, V2.neg, V2.norm, V2.normSq, V2.dot, sqrtR, neg_mul_neg, ← hL,
      V2.add, V2.smul]
    have e : vx * (-vx / L) + vy * (-vy / L) = -L := by field_simp; linarith
    rw [e]
    refine ⟨by rw [abs_neg, abs_of_pos hLpos], fun _ => by linarith, fun h => absurd hs (not_lt.mpr h), ?_⟩
    congr 1 <;> field_simp <;> ring
  · simp only [if_neg hs, V2.normalize, V2.norm, V2.normSq, V2.dot, sqrtR, ← hL, V2.add, V2.smul]
    have e : vx * (vx / L) + vy * (vy / L) = L := by field_simp; linarith
    rw [e]
    refine ⟨abs_of_pos hLpos, fun h => absurd h hs, fun _ => hLpos, ?_⟩
    congr 1 <;> field_simp <;> ring

/-- 2-D, measured point closer than the threshold: the station normal is used and the deviation is
    the normal component. -/
theorem curve_dev_near (p0 n q : V2 ℝ) (hnear : V2.norm (V2.sub q p0) < devTolCurve) :
    pointCurveDeviation p0 n q = (n, V2.dot (V2.sub q p0) n) := by
  simp only [pointCurveDeviation, curveDevNormal, if_pos hnear]

/-- 3-D plane mode: the value is the normal component of the offset. -/
theorem mesh_dev_plane (c n q : V3 ℝ) :
    measurePointDeviation c n q .toPlane = (n, V3.dot n (V3.sub q c)) := rfl

/-- 3-D point mode, away from the surface: full distance, sign of the side, reconstruction. -/
theorem mesh_dev_point_far (c n q : V3 ℝ) (hfar : devTolMesh ≤ V3.norm (V3.sub q c)) :
    |(measurePointDeviation c n q .toPoint).2| = V3.norm (V3.sub q c) ∧
    (0 < V3.dot n (V3.sub q c) → 0 < (measurePointDeviation c n q .toPoint).2) ∧
    (V3.dot n (V3.sub q c) ≤ 0 → (measurePointDeviation c n q .toPoint).2 < 0) ∧
    V3.add c (V3.smul (measurePointDeviation c n q .toPoint).2 (measurePointDeviation c n q .toPoint).1) = q := by
  have hnot : ¬ V3.norm (V3.sub q c) < devTolMesh := not_lt.mpr hfar
  have hLpos : 0 < V3.norm (V3.sub q c) := lt_of_lt_of_le devTolMesh_pos hfar
  obtain ⟨qx, qy, qz⟩ := q
  obtain ⟨px, py, pz⟩ := c
  obtain ⟨nx, ny, nz⟩ := n
  simp only [V3.norm, V3.normSq, V3.dot, V3.sub, sqrtR] at hLpos hnot ⊢
  set vx := qx - px with hvx
  set vy := qy - py with hvy
  set vz := qz - pz with hvz
  set L := Real.sqrt (vx * vx + vy * vy + vz * vz) with hL
  have hLL : L * L = vx * vx + vy * vy + vz * vz := Real.mul_self_sqrt (by nlinarith [mul_self_nonneg vx, mul_self_nonneg vy, mul_self_nonneg vz])
  have hLne : L ≠ 0 := ne_of_gt hLpos
  simp only [measurePointDeviation, meshDevDir, distanceValue3, V3.norm, V3.normSq, V3.dot, V3.sub, sqrtR,
    ← hvx, ← hvy, ← hvz, ← hL, if_neg hnot]
  by_cases hs : 0 < nx * vx + ny * vy + nz * vz
  · simp only [if_pos hs, V3.normalize, V3.norm, V3.normSq, V3.dot, sqrtR, ← hL, V3.add, V3.smul]
    have e : vx / L * vx + vy / L * vy + vz / L * vz = L := by field_simp; linarith
    rw [e]
    refine ⟨abs_of_pos hLpos, fun _ => hLpos, fun h => absurd hs (not_lt.mpr h), ?_⟩
    congr 1 <;> field_simp <;> ring
  · simp only [if_neg hs, V3.normalize, V3.neg, V3.norm, V3.normSq, V3.dot, sqrtR, ← hL, V3.add, V3.smul]
    have e : -(vx / L) * vx + -(vy / L) * vy + -(vz / L) * vz = -L := by field_simp; linarith
    rw [e]
    refine ⟨by rw [abs_neg, abs_of_pos hLpos], fun h => absurd h hs, fun _ => by linarith, ?_⟩
    congr 1 <;> field_simp <;> ring

end Deviation

section Distance
variable {F : Type} [Field F] [LinearOrder F] [IsStrictOrderedRing F]

/-- A directed distance is the projection of `b - a` on its direction … -/
theorem distance_value_projection (a b d : V3 F) :
    distanceValue3 a b d = d.x * (b.x - a.x) + d.y * (b.y - a.y) + d.z * (b.z - a.z) := rfl

/-- … and keeps its value under reversal (ends swapped, direction negated). -/
theorem distance_reversed_value (a b d : V3 F) :
    distanceValue3 b a (V3.neg d) = distanceValue3 a b d := by
  simp only [distanceValue3, V3.dot, V3.sub, V3.neg]; ring

theorem distance_reversed_value2 (a b d : V2 F) :
    distanceValue2 b a (V2.neg d) = distanceValue2 a b d := by
  simp only [distanceValue2, V2.dot, V2.sub, V2.neg]; ring

end Distance

/-! non-vacuity -/
example : devTolCurve ≤ V2.norm (V2.sub (⟨3, 4⟩ : V2 ℝ) ⟨0, 0⟩) := by
  have h : V2.norm (V2.sub (⟨3, 4⟩ : V2 ℝ) ⟨0, 0⟩) = 5 := by
    simp only [V2.norm, V2.normSq, V2.dot, V2.sub, sqrtR]
    rw [show ((3:ℝ) - 0) * (3 - 0) + (4 - 0) * (4 - 0) = 5 * 5 by norm_num]
    exact Real.sqrt_mul_self (by norm_num)
  rw [h]; unfold devTolCurve; rw [ofRatR]
  norm_num [Gen.DEV_NORMAL_TOL_CURVE_num, Gen.DEV_NORMAL_TOL_CURVE_den]

end C16
