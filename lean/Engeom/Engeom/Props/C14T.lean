import Engeom.Generated.RsC14
/-
  C14 — translation tie.  The three private workhorses of `TriangleFilter`
  (src/geom3/mesh/filtering.rs) are regenerated from the /repo working tree on every run —
  `to_check`, `mutate` (the per-face predicate loop) and `mutate_pass_list` (merging a pass list under
  Add / Remove / Keep) — with the `HashSet<usize>` of selected faces read as a list used as a set
  (`insert` = append unless present, `remove` / `retain` = filter).  They are proved to select exactly
  the faces the model's `Filter.toCheck` / `Filter.mutate` / `Filter.mutatePassList` select (equality of
  lists where the code does not depend on the set's iteration order, equality of MEMBERSHIP — the
  meaning of a HashSet — for the insertion loops).  The set-algebra theorems of Props/C14 are about
  those model functions.
-/
namespace C14T

theorem to_check_eq (s : Filter) (op : SelOp) : GenRs.to_check s.indices s.n op = s.toCheck op := by
  cases op <;> rfl

theorem mem_setInsert (s : List Nat) (a x : Nat) : x ∈ setInsert s a ↔ x ∈ s ∨ x = a := by
  unfold setInsert
  by_cases h : s.contains a = true
  · have ha : a ∈ s := by simpa using h
    simp only [h, if_true]
    constructor
    · intro hx; exact Or.inl hx
    · rintro (hx | hx)
      · exact hx
      · exact hx ▸ ha
  · have ha : a ∉ s := by simpa using h
    rw [if_neg h]
    simp [List.mem_append]

theorem mem_setRemove (s : List Nat) (a x : Nat) : x ∈ setRemove s a ↔ x ∈ s ∧ x ≠ a := by
  unfold setRemove
  simp

/-- the insertion loop of `mutate` (Add): afterwards exactly the old faces and the faces of the list
    satisfying the predicate are selected -/
theorem mem_foldl_insert_if (P : Nat → Bool) (l : List Nat) (init : List Nat) (x : Nat) :
    x ∈ l.foldl (fun acc i => if (!(acc.contains i) && P i) = true then setInsert acc i else acc) init
      ↔ x ∈ init ∨ (x ∈ l ∧ P x = true) := by
  induction l generalizing init with
  | nil => simp
  | cons a r ih =>
    rw [List.foldl_cons, ih]
    by_cases hc : (!(init.contains a) && P a) = true
    · rw [if_pos hc, mem_setInsert]
      have hp : P a = true := by
        cases hpa : P a with
        | true => rfl
        | false => simp [hpa] at hc
      constructor
      · rintro ((h | h) | h)
        · exact Or.inl h
        · exact Or.inr ⟨by simp [h], h ▸ hp⟩
        · exact Or.inr ⟨by simp [h.1], h.2⟩
      · rintro (h | ⟨h, hpx⟩)
        · exact Or.inl (Or.inl h)
        · rcases List.mem_cons.mp h with h | h
          · exact Or.inl (Or.inr h)
          · exact Or.inr ⟨h, hpx⟩
    · rw [if_neg hc]
      constructor
      · rintro (h | h)
        · exact Or.inl h
        · exact Or.inr ⟨by simp [h.1], h.2⟩
      · rintro (h | ⟨h, hpx⟩)
        · exact Or.inl h
        · rcases List.mem_cons.mp h with h | h
          · -- x = a: the guard failed although P a holds, so a was already selected
            subst h
            have : init.contains x = true := by
              cases hci : init.contains x with
              | true => rfl
              | false => exact absurd (by rw [hci, hpx]; rfl) hc
            exact Or.inl (by simpa using this)
          · exact Or.inr ⟨h, hpx⟩

theorem mem_foldl_insert (l init : List Nat) (x : Nat) :
    x ∈ l.foldl (fun acc i => setInsert acc i) init ↔ x ∈ init ∨ x ∈ l := by
  induction l generalizing init with
  | nil => simp
  | cons a r ih =>
    rw [List.foldl_cons, ih, mem_setInsert]
    simp only [List.mem_cons]
    constructor
    · rintro ((h | h) | h)
      · exact Or.inl h
      · exact Or.inr (Or.inl h)
      · exact Or.inr (Or.inr h)
    · rintro (h | h | h)
      · exact Or.inl (Or.inl h)
      · exact Or.inl (Or.inr h)
      · exact Or.inr h

theorem mem_foldl_remove (l init : List Nat) (x : Nat) :
    x ∈ l.foldl (fun acc i => setRemove acc i) init ↔ x ∈ init ∧ x ∉ l := by
  induction l generalizing init with
  | nil => simp
  | cons a r ih =>
    rw [List.foldl_cons, ih, mem_setRemove]
    simp only [List.mem_cons, not_or]
    constructor
    · rintro ⟨⟨h1, h2⟩, h3⟩; exact ⟨h1, h2, h3⟩
    · rintro ⟨h1, h2, h3⟩; exact ⟨⟨h1, h2⟩, h3⟩

/-- `mutate`: the regenerated code selects exactly the faces the model selects -/
theorem mutate_mem (s : Filter) (op : SelOp) (P : Nat → Bool) (x : Nat) :
    x ∈ GenRs.mutate s.indices s.n op P ↔ x ∈ (s.mutate op P).indices := by
  cases op with
  | add =>
    show x ∈ (List.range s.n).foldl _ s.indices ↔ _
    unfold Filter.mutate
    simp only [List.mem_append, List.mem_filter, Bool.and_eq_true, Bool.not_eq_true']
    have := mem_foldl_insert_if P (List.range s.n) s.indices x
    simp only [Bool.and_eq_true, Bool.not_eq_true'] at this
    rw [this]
    constructor
    · rintro (h | ⟨h, hp⟩)
      · exact Or.inl h
      · by_cases hx : x ∈ s.indices
        · exact Or.inl hx
        · exact Or.inr ⟨h, by simpa using hx, hp⟩
    · rintro (h | ⟨h, _, hp⟩)
      · exact Or.inl h
      · exact Or.inr ⟨h, hp⟩
  | remove => exact Iff.rfl
  | keep => exact Iff.rfl

/-- `mutate_pass_list`: the regenerated code selects exactly the faces the model selects -/
theorem mutate_pass_list_mem (s : Filter) (op : SelOp) (pass : List Nat) (x : Nat) :
    x ∈ GenRs.mutate_pass_list s.indices op pass ↔ x ∈ (s.mutatePassList op pass).indices := by
  cases op with
  | add =>
    show x ∈ pass.foldl _ s.indices ↔ _
    unfold Filter.mutatePassList
    rw [mem_foldl_insert]
    simp only [List.mem_append, List.mem_filter, Bool.not_eq_true']
    constructor
    · rintro (h | h)
      · exact Or.inl h
      · by_cases hx : x ∈ s.indices
        · exact Or.inl hx
        · exact Or.inr ⟨h, by simpa using hx⟩
    · rintro (h | ⟨h, _⟩)
      · exact Or.inl h
      · exact Or.inr h
  | remove =>
    show x ∈ pass.foldl _ s.indices ↔ _
    unfold Filter.mutatePassList
    rw [mem_foldl_remove]
    simp [List.mem_filter]
  | keep => exact Iff.rfl
end C14T
