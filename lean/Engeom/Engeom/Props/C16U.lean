import Engeom.Props.C16
import Engeom.Props.C16T
/-
  C16 — "deviations equal signed distance" stated about the REGENERATED direction choices of
  `point_curve2_deviation` and `Mesh::measure_point_deviation` (over ℝ): with the regenerated direction `d`
  and the value `v = d · (measured − reference)` the code reports, the theorems of Props/C16 hold — magnitude
  equal to the distance, sign of the side of the normal, reconstruction of the measured point.  The equalities
  of Props/C16T are definitional, so the statements below are checked against the regenerated definitions
  directly.  Also: the cached extremes of a `SurfaceDeviationSet` built by the regenerated `new`.
-/
namespace C16U

/-- 2-D, away from the reference point -/
theorem curve_deviation_far (p0 n q : V2 ℝ) (hfar : devTolCurve ≤ V2.norm (V2.sub q p0)) :
    let d := GenRs.curve_dev_normal (V2.sub q p0) ⟨p0, n⟩
    let v := V2.dot (V2.sub q p0) d
    |v| = V2.norm (V2.sub q p0) ∧ (V2.dot (V2.sub q p0) n < 0 → v < 0) ∧ (0 ≤ V2.dot (V2.sub q p0) n → 0 < v) ∧
    V2.add p0 (V2.smul v d) = q :=
  C16.curve_dev_far p0 n q hfar

/-- 2-D, on the curve (closer than the threshold): the station normal, and the normal component -/
theorem curve_deviation_near (p0 n q : V2 ℝ) (hnear : V2.norm (V2.sub q p0) < devTolCurve) :
    GenRs.curve_dev_normal (V2.sub q p0) ⟨p0, n⟩ = n := by
  have := C16.curve_dev_near p0 n q hnear
  exact congrArg Prod.fst this

/-- 3-D, plane mode: the direction is the surface normal -/
theorem mesh_deviation_plane (c n q : V3 ℝ) : GenRs.mesh_dev_dir q ⟨c, n⟩ .toPlane = n := rfl

/-- 3-D, point mode, away from the surface -/
theorem mesh_deviation_point_far (c n q : V3 ℝ) (hfar : devTolMesh ≤ V3.norm (V3.sub q c)) :
    let d := GenRs.mesh_dev_dir q ⟨c, n⟩ .toPoint
    let v := V3.dot d (V3.sub q c)
    |v| = V3.norm (V3.sub q c) ∧ (0 < V3.dot n (V3.sub q c) → 0 < v) ∧ (V3.dot n (V3.sub q c) ≤ 0 → v < 0) ∧
    V3.add c (V3.smul v d) = q :=
  C16.mesh_dev_point_far c n q hfar

/-- the indices cached by the regenerated `SurfaceDeviationSet::new` satisfy the invariant of the set
    (in range, pointing at a maximal / minimal deviation) -/
theorem devset_new_invariant (vs : List ℝ) :
    C16.DevSetInv (⟨vs, (GenRs.devset_new vs).1, (GenRs.devset_new vs).2⟩ : DevSet ℝ) :=
  C16.devset_new_inv vs
/-! ### `PointCloud::try_new`: when a channel is refused (regenerated guards) -/

/-- a normals (colours) channel that is present is accepted exactly when it has one entry per point: an EMPTY channel
    beside a non-empty point list is refused like any other mismatch, so an accepted cloud has channels of the
    length of its points -/
theorem cloud_channel_accepted_iff_same_length (channel_len points_len : Nat) :
    (GenRs.cloud_normals_refused channel_len points_len = false ↔ channel_len = points_len) ∧
    (GenRs.cloud_colors_refused channel_len points_len = false ↔ channel_len = points_len) := by
  unfold GenRs.cloud_normals_refused GenRs.cloud_colors_refused
  simp

theorem cloud_empty_channel_refused (points_len : Nat) (h : 0 < points_len) :
    GenRs.cloud_normals_refused 0 points_len = true ∧ GenRs.cloud_colors_refused 0 points_len = true := by
  unfold GenRs.cloud_normals_refused GenRs.cloud_colors_refused
  simp; omega

end C16U
