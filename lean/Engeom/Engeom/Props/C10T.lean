import Engeom.Generated.RsC10
import Engeom.Generated.Consts
import Mathlib.Order.Basic
import Mathlib.Order.Defs.LinearOrder
/-
  C10 — translation tie, with a theorem stated about the REGENERATED code.
  `find_tmax_circle` (src/airfoil/helpers.rs: the scan for the inscribed circle of largest diameter, the
  "maximum thickness" the analysis reports) and the end-of-section test of `advance_search_along_ray`
  (src/airfoil/camber.rs) are regenerated from the /repo working tree on every run.
  `find_tmax_is_max`: over any linear order, the circle the regenerated scan returns is one of the
  stations and no station has a larger diameter (and when no station has a positive diameter it returns
  nothing).  A change of the loop (comparison, early exit, what is recorded) changes the regenerated
  definition, and this proof is re-checked against it.
-/
namespace C10T
set_option linter.unusedSectionVars false

section Max
variable {α : Type} [LinearOrder α] [Add α] [Sub α] [Mul α] [Div α] [Neg α]
  [OfNat α 0] [OfNat α 1] [OfNat α 2] [Scalar α]

/-- the state of the scan is consistent: nothing recorded and the running maximum still 0, or the
    recorded circle is a station whose diameter is the running maximum -/
def Rec (l : List (ICircle α)) (st : α × Option (ICircle α)) : Prop :=
  (st.2 = none ∧ st.1 = 0) ∨ ∃ c, st.2 = some c ∧ c ∈ l ∧ st.1 = c.radius * 2

theorem scan (all l : List (ICircle α)) (hl : ∀ c ∈ l, c ∈ all) (st : α × Option (ICircle α)) (hst : Rec all st) :
    let r := l.foldl (fun (st : α × Option (ICircle α)) c =>
      if st.1 < c.radius * 2 then (c.radius * 2, some c) else st) st
    st.1 ≤ r.1 ∧ Rec all r ∧ ∀ c ∈ l, c.radius * 2 ≤ r.1 := by
  induction l generalizing st with
  | nil => exact ⟨le_refl _, hst, fun c hc => absurd hc List.not_mem_nil⟩
  | cons a rest ih =>
    simp only [List.foldl_cons]
    have hrest : ∀ c ∈ rest, c ∈ all := fun c hc => hl c (List.mem_cons_of_mem _ hc)
    by_cases h : st.1 < a.radius * 2
    · rw [if_pos h]
      have hrec : Rec all (a.radius * 2, some a) := Or.inr ⟨a, rfl, hl a (List.mem_cons_self), rfl⟩
      obtain ⟨h1, h2, h3⟩ := ih hrest _ hrec
      refine ⟨le_trans (le_of_lt h) h1, h2, ?_⟩
      intro c hc
      rcases List.mem_cons.mp hc with hc | hc
      · subst hc; exact h1
      · exact h3 c hc
    · rw [if_neg h]
      obtain ⟨h1, h2, h3⟩ := ih hrest st hst
      refine ⟨h1, h2, ?_⟩
      intro c hc
      rcases List.mem_cons.mp hc with hc | hc
      · subst hc; exact le_trans (not_lt.mp h) h1
      · exact h3 c hc

/-- the regenerated `find_tmax_circle` is that scan started from `(0, none)` -/
theorem find_tmax_eq (l : List (ICircle α)) :
    GenRs.find_tmax_circle l = (l.foldl (fun (st : α × Option (ICircle α)) c =>
      if st.1 < c.radius * 2 then (c.radius * 2, some c) else st) (0, none)).2 := rfl

/-- the circle returned by the regenerated `find_tmax_circle` is a station and no station has a
    larger diameter; `none` is returned only when no station has a positive diameter -/
theorem find_tmax_is_max (l : List (ICircle α)) :
    (∀ m, GenRs.find_tmax_circle l = some m → m ∈ l ∧ ∀ c ∈ l, c.radius * 2 ≤ m.radius * 2) ∧
    (GenRs.find_tmax_circle l = none → ∀ c ∈ l, c.radius * 2 ≤ 0) := by
  rw [find_tmax_eq]
  obtain ⟨_, hrec, hall⟩ := scan l l (fun c hc => hc) ((0 : α), none) (Or.inl ⟨rfl, rfl⟩)
  constructor
  · intro m hm
    rcases hrec with ⟨hn, _⟩ | ⟨c, hc, hmem, hval⟩
    · rw [hn] at hm; cases hm
    · rw [hc] at hm
      cases hm
      exact ⟨hmem, fun c' hc' => hval ▸ hall c' hc'⟩
  · intro hnone
    rcases hrec with ⟨_, h0⟩ | ⟨c, hc, _, _⟩
    · intro c hc; exact h0 ▸ hall c hc
    · rw [hc] at hnone; cases hnone
end Max

section Tie
variable {α : Type} [Add α] [Sub α] [Mul α] [Div α] [Neg α] [LT α] [LE α]
  [DecidableLT α] [DecidableLE α] [OfNat α 0] [OfNat α 1] [OfNat α 2] [Scalar α]

/-- the search along the camber ends when the section reaches less than a quarter radius beyond the
    last inscribed circle -/
theorem advance_end_test_eq (distance radius : α) :
    GenRs.advance_end_test distance radius
      = decide (distance - radius < radius * Scalar.ofRat Gen.ADV_END_num Gen.ADV_END_den) := rfl
end Tie
end C10T
