import Engeom.Props.C13
import Engeom.Props.C12T
/-
  C12 — stated about the REGENERATED `chain_candidates` (src/common/indices.rs): when it names a continuation
  `(k, i)`, position `k` of the unused list holds pair `i`, and that pair starts (forward) or ends (backward) at
  the requested vertex.  `chainCandidate_spec` of Props/C13 carried over by the equality of Props/C12T.
-/
namespace C12U

theorem chain_candidates_spec (pairs : List Nat) (idx : List Edge) (v : Nat) (fwd : Bool) (k i : Nat)
    (hin : ∀ j ∈ pairs, j < idx.length)
    (h : GenRs.chain_candidates pairs (C12T.asArrays idx) v fwd = some (k, i)) :
    pairs[k]? = some i ∧ ∃ e, idx[i]? = some e ∧ (if fwd then e.1 else e.2) = v := by
  rw [C12T.chain_candidates_eq pairs idx v fwd hin] at h
  exact C13.chainCandidate_spec h
/-! ### the key under which `unique_edges` counts an undirected edge (regenerated `edge_key`, and its use) -/

/-- the key is the pair (smaller id, larger id): the same for both directions of an edge, and DIFFERENT for different
    undirected edges — for vertex ids of any size (nothing is packed into fewer bits) -/
theorem edge_key_identifies_the_undirected_edge (a b c d : Nat) :
    (GenRs.edge_key_lo a b = GenRs.edge_key_lo b a ∧ GenRs.edge_key_hi a b = GenRs.edge_key_hi b a) ∧
    GenRs.edge_key_lo a b ≤ GenRs.edge_key_hi a b ∧
    ((GenRs.edge_key_lo a b = GenRs.edge_key_lo c d ∧ GenRs.edge_key_hi a b = GenRs.edge_key_hi c d) ↔
      ((a = c ∧ b = d) ∨ (a = d ∧ b = c))) := by
  unfold GenRs.edge_key_lo GenRs.edge_key_hi
  have e1 : ∀ x y : Nat, Nat.min x y = min x y := fun _ _ => rfl
  have e2 : ∀ x y : Nat, Nat.max x y = max x y := fun _ _ => rfl
  simp only [e1, e2]
  refine ⟨⟨by omega, by omega⟩, by omega, ?_⟩
  constructor
  · intro h; omega
  · intro h; omega

/-- and that key, unchanged, is what the counting map of `unique_edges` is indexed by -/
theorem unique_edges_counts_under_edge_key (k : Nat) : GenRs.unique_edges_key k = k := rfl

end C12U
