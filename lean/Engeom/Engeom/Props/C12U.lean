import Engeom.Props.C13
import Engeom.Props.C12T
/-
  C12 — stated about the REGENERATED `chain_candidates` (src/common/indices.rs): when it names a continuation
  `(k, i)`, position `k` of the unused list holds pair `i`, and that pair starts (forward) or ends (backward) at
  the requested vertex.  `chainCandidate_spec` of Props/C13 carried over by the equality of Props/C12T.
-/
namespace C12U

theorem chain_candidates_spec (pairs : List Nat) (idx : List Edge) (v : Nat) (fwd : Bool) (k i : Nat)
    (hin : ∀ j ∈ pairs, j < idx.length)
    (h : GenRs.chain_candidates pairs (C12T.asArrays idx) v fwd = some (k, i)) :
    pairs[k]? = some i ∧ ∃ e, idx[i]? = some e ∧ (if fwd then e.1 else e.2) = v := by
  rw [C12T.chain_candidates_eq pairs idx v fwd hin] at h
  exact C13.chainCandidate_spec h
end C12U
