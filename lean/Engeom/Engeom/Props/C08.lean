import Engeom.Model.Align
import Engeom.Lemmas.Atan2
import Engeom.Lemmas.Basics
import Engeom.Props.C03
import Mathlib.Analysis.SpecialFunctions.Trigonometric.Deriv
import Mathlib.Tactic.LinearCombination
/-
  C08 — Alignment parameters round-trip and Jacobians are true derivatives (at ℝ).
-/

namespace C08

open Real

/-! ### 2-D: the rotation-centred parameter object -/

theorem iso2_mul_translation_c (T : Iso2 ℝ) (a b : ℝ) :
    (T.mul (iso2Translation a b)).c = T.c ∧ (T.mul (iso2Translation a b)).s = T.s ∧
    ((iso2Translation a b).mul T).c = T.c ∧ ((iso2Translation a b).mul T).s = T.s := by
  simp [Iso2.mul, iso2Translation]

/-- re-expressing about the centre and back about the origin is the identity (pure algebra) -/
theorem aboutOrigin_aboutCenter (rc : V2 ℝ) (T : Iso2 ℝ) : asIsoAboutOrigin rc (asIsoAboutCenter rc T) = T := by
  cases T with
  | mk c s t =>
    cases t with
    | mk tx ty =>
      simp only [asIsoAboutOrigin, asIsoAboutCenter, Iso2.mul, iso2Translation, Iso2.apply, Iso2.applyVec, V2.add,
        Iso2.mk.injEq, V2.mk.injEq]
      refine ⟨by ring, by ring, by ring, by ring⟩

/-- Converting a (unit) isometry to parameters and back is the identity. -/
theorem iso2_param_roundtrip (T : Iso2 ℝ) (h : T.c * T.c + T.s * T.s = 1) :
    iso2FromParam (paramFromIso2 T).1 (paramFromIso2 T).2.1 (paramFromIso2 T).2.2 = T := by
  cases T with
  | mk c s t =>
    cases t with
    | mk tx ty =>
      simp only [iso2FromParam, paramFromIso2, Iso2.mk.injEq, V2.mk.injEq, and_true]
      exact ⟨cos_atan2_unit c s h, sin_atan2_unit c s h⟩

/-- For every initial isometry and rotation centre the parameter object reproduces exactly that
    isometry. -/
theorem rc2_fromInitial_transform (initial : Iso2 ℝ) (rc : V2 ℝ) (h : initial.c * initial.c + initial.s * initial.s = 1) :
    (RcParams2.fromInitial initial rc).transform = initial := by
  unfold RcParams2.fromInitial RcParams2.set
  dsimp only
  have hu : (asIsoAboutCenter rc initial).c * (asIsoAboutCenter rc initial).c +
      (asIsoAboutCenter rc initial).s * (asIsoAboutCenter rc initial).s = 1 := by
    simp only [asIsoAboutCenter, Iso2.mul, iso2Translation]
    ring_nf; ring_nf at h; linarith
  rw [iso2_param_roundtrip _ hu]
  exact aboutOrigin_aboutCenter rc initial

/-- the transform after any parameter update is a rigid motion … -/
theorem rc2_set_isRot (rc : V2 ℝ) (x : ℝ × ℝ × ℝ) : C03.IsRot2 (RcParams2.set rc x).transform := by
  constructor
  simp only [RcParams2.set, asIsoAboutOrigin, iso2FromParam, Iso2.mul, iso2Translation]
  have := Real.sin_sq_add_cos_sq x.2.2
  show (1 * (Real.cos x.2.2 * 1 - Real.sin x.2.2 * 0) - 0 * (Real.sin x.2.2 * 1 + Real.cos x.2.2 * 0)) *
      (1 * (Real.cos x.2.2 * 1 - Real.sin x.2.2 * 0) - 0 * (Real.sin x.2.2 * 1 + Real.cos x.2.2 * 0)) +
    (0 * (Real.cos x.2.2 * 1 - Real.sin x.2.2 * 0) + 1 * (Real.sin x.2.2 * 1 + Real.cos x.2.2 * 0)) *
      (0 * (Real.cos x.2.2 * 1 - Real.sin x.2.2 * 0) + 1 * (Real.sin x.2.2 * 1 + Real.cos x.2.2 * 0)) = 1
  nlinarith

/-- … so the stored inverse undoes the stored transform after ANY update, and the moved rotation
    centre is the image of the rotation centre. -/
theorem rc2_inverse_consistent (rc : V2 ℝ) (x : ℝ × ℝ × ℝ) (p : V2 ℝ) :
    (RcParams2.set rc x).inverse.apply ((RcParams2.set rc x).transform.apply p) = p ∧
    (RcParams2.set rc x).currentRc = (RcParams2.set rc x).transform.apply rc :=
  ⟨C03.inv_apply_apply2 _ (rc2_set_isRot rc x) p, rfl⟩

/-- explicit action of the transform: rotate about the rotation centre, then translate -/
theorem rc2_transform_apply (rc : V2 ℝ) (tx ty th : ℝ) (p : V2 ℝ) :
    (RcParams2.set rc (tx, ty, th)).transform.apply p =
      ⟨Real.cos th * (p.x - rc.x) - Real.sin th * (p.y - rc.y) + rc.x + tx,
       Real.sin th * (p.x - rc.x) + Real.cos th * (p.y - rc.y) + rc.y + ty⟩ := by
  simp only [RcParams2.set, asIsoAboutOrigin, iso2FromParam, Iso2.mul, iso2Translation, Iso2.apply, Iso2.applyVec, V2.add,
    V2.mk.injEq]
  show _ = Real.cos th * (p.x - rc.x) - Real.sin th * (p.y - rc.y) + rc.x + tx ∧
    _ = Real.sin th * (p.x - rc.x) + Real.cos th * (p.y - rc.y) + rc.y + ty
  constructor <;> (simp only [show (Scalar.cos th : ℝ) = Real.cos th from rfl, show (Scalar.sin th : ℝ) = Real.sin th from rfl]; ring)

/-- A pure-translation parameter change translates by that vector wherever the centre is. -/
theorem rc2_pure_translation (rc : V2 ℝ) (tx ty th dx dy : ℝ) (p : V2 ℝ) :
    (RcParams2.set rc (tx + dx, ty + dy, th)).transform.apply p =
      V2.add ((RcParams2.set rc (tx, ty, th)).transform.apply p) ⟨dx, dy⟩ := by
  rw [rc2_transform_apply, rc2_transform_apply]
  simp only [V2.add, V2.mk.injEq]
  constructor <;> ring

/-- The 2-D Jacobian row is the derivative of the residual `n · (T(x) p₀ − s)` with respect to each
    parameter: `(n.x, n.y, n · rot90 (p − current_rc))` where `p = T(x) p₀`. -/
theorem jac2_hasDerivAt (rc p0 n s : V2 ℝ) (tx ty th : ℝ) :
    let P := RcParams2.set rc (tx, ty, th)
    let J := pointSurfaceJacobian2 (P.transform.apply p0) n P.currentRc
    HasDerivAt (fun t => V2.dot n (V2.sub ((RcParams2.set rc (t, ty, th)).transform.apply p0) s)) J.1 tx ∧
    HasDerivAt (fun t => V2.dot n (V2.sub ((RcParams2.set rc (tx, t, th)).transform.apply p0) s)) J.2.1 ty ∧
    HasDerivAt (fun t => V2.dot n (V2.sub ((RcParams2.set rc (tx, ty, t)).transform.apply p0) s)) J.2.2 th := by
  intro P J
  have hcrc : P.currentRc = ⟨rc.x + tx, rc.y + ty⟩ := by
    show (RcParams2.set rc (tx, ty, th)).transform.apply rc = _
    rw [rc2_transform_apply]; simp
  refine ⟨?_, ?_, ?_⟩
  · have : (fun t => V2.dot n (V2.sub ((RcParams2.set rc (t, ty, th)).transform.apply p0) s)) =
        fun t => n.x * t + (n.x * (Real.cos th * (p0.x - rc.x) - Real.sin th * (p0.y - rc.y) + rc.x - s.x) +
          n.y * (Real.sin th * (p0.x - rc.x) + Real.cos th * (p0.y - rc.y) + rc.y + ty - s.y)) := by
      funext t; rw [rc2_transform_apply]; simp only [V2.dot, V2.sub]; ring
    rw [this]
    have h := ((hasDerivAt_id tx).const_mul n.x).add_const
      (n.x * (Real.cos th * (p0.x - rc.x) - Real.sin th * (p0.y - rc.y) + rc.x - s.x) +
          n.y * (Real.sin th * (p0.x - rc.x) + Real.cos th * (p0.y - rc.y) + rc.y + ty - s.y))
    simpa [J, pointSurfaceJacobian2] using h
  · have : (fun t => V2.dot n (V2.sub ((RcParams2.set rc (tx, t, th)).transform.apply p0) s)) =
        fun t => n.y * t + (n.x * (Real.cos th * (p0.x - rc.x) - Real.sin th * (p0.y - rc.y) + rc.x + tx - s.x) +
          n.y * (Real.sin th * (p0.x - rc.x) + Real.cos th * (p0.y - rc.y) + rc.y - s.y)) := by
      funext t; rw [rc2_transform_apply]; simp only [V2.dot, V2.sub]; ring
    rw [this]
    have h := ((hasDerivAt_id ty).const_mul n.y).add_const
      (n.x * (Real.cos th * (p0.x - rc.x) - Real.sin th * (p0.y - rc.y) + rc.x + tx - s.x) +
          n.y * (Real.sin th * (p0.x - rc.x) + Real.cos th * (p0.y - rc.y) + rc.y - s.y))
    simpa [J, pointSurfaceJacobian2] using h
  · have : (fun t => V2.dot n (V2.sub ((RcParams2.set rc (tx, ty, t)).transform.apply p0) s)) =
        fun t => (n.x * (p0.x - rc.x) + n.y * (p0.y - rc.y)) * Real.cos t +
          (n.y * (p0.x - rc.x) - n.x * (p0.y - rc.y)) * Real.sin t +
          (n.x * (rc.x + tx - s.x) + n.y * (rc.y + ty - s.y)) := by
      funext t; rw [rc2_transform_apply]; simp only [V2.dot, V2.sub]; ring
    rw [this]
    have h := (((Real.hasDerivAt_cos th).const_mul (n.x * (p0.x - rc.x) + n.y * (p0.y - rc.y))).add
      ((Real.hasDerivAt_sin th).const_mul (n.y * (p0.x - rc.x) - n.x * (p0.y - rc.y)))).add_const
      (n.x * (rc.x + tx - s.x) + n.y * (rc.y + ty - s.y))
    have h2 : HasDerivAt (fun t => (n.x * (p0.x - rc.x) + n.y * (p0.y - rc.y)) * Real.cos t +
          (n.y * (p0.x - rc.x) - n.x * (p0.y - rc.y)) * Real.sin t +
          (n.x * (rc.x + tx - s.x) + n.y * (rc.y + ty - s.y)))
        ((n.x * (p0.x - rc.x) + n.y * (p0.y - rc.y)) * -Real.sin th + (n.y * (p0.x - rc.x) - n.x * (p0.y - rc.y)) * Real.cos th) th := h
    refine h2.congr_deriv ?_
    show _ = V2.dot n ⟨-(V2.sub (P.transform.apply p0) P.currentRc).y, (V2.sub (P.transform.apply p0) P.currentRc).x⟩
    rw [hcrc]
    show _ = V2.dot n ⟨-(V2.sub ((RcParams2.set rc (tx, ty, th)).transform.apply p0) _).y, (V2.sub ((RcParams2.set rc (tx, ty, th)).transform.apply p0) _).x⟩
    rw [rc2_transform_apply]
    simp only [V2.dot, V2.sub]
    ring

/-! ### 3-D: rotation matrices -/

@[simp] theorem cosS (a : ℝ) : (Scalar.cos a : ℝ) = Real.cos a := rfl
@[simp] theorem sinS (a : ℝ) : (Scalar.sin a : ℝ) = Real.sin a := rfl

/-- orthogonal: columns orthonormal -/
def Orth (m : Mat3 ℝ) : Prop := C03.IsRot3 (isoOf m ⟨0, 0, 0⟩)

theorem rotX_orth (a : ℝ) : Orth (rotX a) := by
  have := Real.sin_sq_add_cos_sq a
  constructor <;> simp [isoOf, rotX, Iso3.col0, Iso3.col1, Iso3.col2, V3.dot] <;> nlinarith

theorem rotY_orth (a : ℝ) : Orth (rotY a) := by
  have := Real.sin_sq_add_cos_sq a
  constructor <;> simp [isoOf, rotY, Iso3.col0, Iso3.col1, Iso3.col2, V3.dot] <;> nlinarith

theorem rotZ_orth (a : ℝ) : Orth (rotZ a) := by
  have := Real.sin_sq_add_cos_sq a
  constructor <;> simp [isoOf, rotZ, Iso3.col0, Iso3.col1, Iso3.col2, V3.dot] <;> nlinarith

/-- the product of two orthogonal matrices is orthogonal -/
theorem orth_mul (A B : Mat3 ℝ) (hA : Orth A) (hB : Orth B) : Orth (A.mul B) := by
  obtain ⟨a00, a11, a22, a01, a02, a12⟩ := hA
  obtain ⟨b00, b11, b22, b01, b02, b12⟩ := hB
  simp only [isoOf, Iso3.col0, Iso3.col1, Iso3.col2, V3.dot] at a00 a11 a22 a01 a02 a12 b00 b11 b22 b01 b02 b12
  constructor <;> simp only [isoOf, Mat3.mul, Mat3.col0, Mat3.col1, Mat3.col2, Iso3.col0, Iso3.col1, Iso3.col2, V3.dot]
  · linear_combination (B.r0.x * B.r0.x) * a00 + (B.r1.x * B.r1.x) * a11 + (B.r2.x * B.r2.x) * a22 +
      (2 * B.r0.x * B.r1.x) * a01 + (2 * B.r0.x * B.r2.x) * a02 + (2 * B.r1.x * B.r2.x) * a12 + b00
  · linear_combination (B.r0.y * B.r0.y) * a00 + (B.r1.y * B.r1.y) * a11 + (B.r2.y * B.r2.y) * a22 +
      (2 * B.r0.y * B.r1.y) * a01 + (2 * B.r0.y * B.r2.y) * a02 + (2 * B.r1.y * B.r2.y) * a12 + b11
  · linear_combination (B.r0.z * B.r0.z) * a00 + (B.r1.z * B.r1.z) * a11 + (B.r2.z * B.r2.z) * a22 +
      (2 * B.r0.z * B.r1.z) * a01 + (2 * B.r0.z * B.r2.z) * a02 + (2 * B.r1.z * B.r2.z) * a12 + b22
  · linear_combination (B.r0.x * B.r0.y) * a00 + (B.r1.x * B.r1.y) * a11 + (B.r2.x * B.r2.y) * a22 +
      (B.r0.x * B.r1.y + B.r1.x * B.r0.y) * a01 + (B.r0.x * B.r2.y + B.r2.x * B.r0.y) * a02 +
      (B.r1.x * B.r2.y + B.r2.x * B.r1.y) * a12 + b01
  · linear_combination (B.r0.x * B.r0.z) * a00 + (B.r1.x * B.r1.z) * a11 + (B.r2.x * B.r2.z) * a22 +
      (B.r0.x * B.r1.z + B.r1.x * B.r0.z) * a01 + (B.r0.x * B.r2.z + B.r2.x * B.r0.z) * a02 +
      (B.r1.x * B.r2.z + B.r2.x * B.r1.z) * a12 + b02
  · linear_combination (B.r0.y * B.r0.z) * a00 + (B.r1.y * B.r1.z) * a11 + (B.r2.y * B.r2.z) * a22 +
      (B.r0.y * B.r1.z + B.r1.y * B.r0.z) * a01 + (B.r0.y * B.r2.z + B.r2.y * B.r0.z) * a02 +
      (B.r1.y * B.r2.z + B.r2.y * B.r1.z) * a12 + b12

/-- `Rx · Ry · Rz` is a rotation matrix for all Euler angles -/
theorem eulerMat_orth (rx ry rz : ℝ) : Orth (eulerMat rx ry rz) :=
  orth_mul _ _ (orth_mul _ _ (rotX_orth rx) (rotY_orth ry)) (rotZ_orth rz)

/-! ### 3-D: the rotation-centred parameter object -/

/-- explicit action: rotate about the rotation centre, translate, and land on the moved centre -/
theorem rc3_transform_apply (rc rcD : V3 ℝ) (tx ty tz rx ry rz : ℝ) (p : V3 ℝ) :
    (RcParams3.set rc rcD tx ty tz rx ry rz).transform.apply p =
      V3.add (V3.add ((eulerMat rx ry rz).mulVec (V3.sub p rc)) ⟨tx, ty, tz⟩) rcD := by
  simp only [RcParams3.set, isoOf, Iso3.mul, Iso3.apply, Iso3.applyVec, Iso3.col0, Iso3.col1, Iso3.col2,
    Mat3.mulVec, V3.add, V3.sub, V3.neg, V3.dot, V3.mk.injEq]
  refine ⟨by ring, by ring, by ring⟩

theorem rc3_transform_rot (rc rcD : V3 ℝ) (tx ty tz rx ry rz : ℝ) :
    C03.IsRot3 (RcParams3.set rc rcD tx ty tz rx ry rz).transform := by
  obtain ⟨c00, c11, c22, c01, c02, c12⟩ := eulerMat_orth rx ry rz
  simp only [isoOf, Iso3.col0, Iso3.col1, Iso3.col2, V3.dot] at c00 c11 c22 c01 c02 c12
  constructor <;>
    simp only [RcParams3.set, isoOf, Iso3.mul, Iso3.col0, Iso3.col1, Iso3.col2, V3.dot, V3.neg]
  · linear_combination c00
  · linear_combination c11
  · linear_combination c22
  · linear_combination c01
  · linear_combination c02
  · linear_combination c12

/-- After ANY parameter update the stored inverse undoes the transform and the moved rotation
    centre is the image of the rotation centre. -/
theorem rc3_inverse_consistent (rc rcD : V3 ℝ) (tx ty tz rx ry rz : ℝ) (p : V3 ℝ) :
    (RcParams3.set rc rcD tx ty tz rx ry rz).transform.inv.apply
      ((RcParams3.set rc rcD tx ty tz rx ry rz).transform.apply p) = p ∧
    (RcParams3.set rc rcD tx ty tz rx ry rz).currentRc =
      (RcParams3.set rc rcD tx ty tz rx ry rz).transform.apply rc :=
  ⟨C03.inv_apply_apply _ (rc3_transform_rot rc rcD tx ty tz rx ry rz) p, rfl⟩

/-- A pure-translation parameter change translates by that vector wherever the centre is. -/
theorem rc3_pure_translation (rc rcD : V3 ℝ) (tx ty tz rx ry rz dx dy dz : ℝ) (p : V3 ℝ) :
    (RcParams3.set rc rcD (tx + dx) (ty + dy) (tz + dz) rx ry rz).transform.apply p =
      V3.add ((RcParams3.set rc rcD tx ty tz rx ry rz).transform.apply p) ⟨dx, dy, dz⟩ := by
  rw [rc3_transform_apply, rc3_transform_apply]
  simp only [V3.add, V3.mk.injEq]
  refine ⟨by ring, by ring, by ring⟩

/-- The parameter object built from an initial isometry reproduces exactly that isometry, provided
    the Euler decomposition round-trips the initial rotation (proved below for every Euler triple,
    including exactly at gimbal lock). -/
theorem rc3_fromInitial_transform (initial : Iso3 ℝ) (rc : V3 ℝ)
    (hR : eulerMat (toWpr ⟨initial.r0, initial.r1, initial.r2⟩).1 (toWpr ⟨initial.r0, initial.r1, initial.r2⟩).2.1
      (toWpr ⟨initial.r0, initial.r1, initial.r2⟩).2.2 = ⟨initial.r0, initial.r1, initial.r2⟩) (p : V3 ℝ) :
    (RcParams3.fromInitial initial rc).transform.apply p = initial.apply p := by
  unfold RcParams3.fromInitial
  dsimp only
  rw [rc3_transform_apply, hR]
  simp only [Mat3.mulVec, Iso3.apply, Iso3.applyVec, V3.add, V3.sub, V3.dot, V3.mk.injEq]
  refine ⟨by ring, by ring, by ring⟩

/-! ### 3-D: the Euler decomposition round-trips -/

theorem wprEps_pos : (0 : ℝ) < wprEps ∧ (wprEps : ℝ) < 1 := by
  unfold wprEps; rw [ofRatR]; norm_num [Gen.WPR_EPSILON_num, Gen.WPR_EPSILON_den]

/-- entries of `Rx·Ry·Rz` that the decomposition reads -/
theorem eulerMat_entries (rx ry rz : ℝ) :
    (eulerMat rx ry rz).r0 = ⟨Real.cos ry * Real.cos rz, -(Real.cos ry * Real.sin rz), Real.sin ry⟩ ∧
    (eulerMat rx ry rz).r1.z = -(Real.sin rx * Real.cos ry) ∧ (eulerMat rx ry rz).r2.z = Real.cos rx * Real.cos ry := by
  simp only [eulerMat, rotX, rotY, rotZ, Mat3.mul, Mat3.col0, Mat3.col1, Mat3.col2, V3.dot, cosS, sinS, V3.mk.injEq]
  refine ⟨⟨by ring, by ring, by ring⟩, by ring, by ring⟩

/-- Away from gimbal lock the Euler triple itself is recovered: `to_wpr (Rx·Ry·Rz) = (rx, ry, rz)`
    for `rx, rz ∈ (−π, π]`, `ry ∈ (−π/2, π/2)` with `cos ry ≥ ε`. -/
theorem toWpr_eulerMat (rx ry rz : ℝ) (hx : -π < rx ∧ rx ≤ π) (hz : -π < rz ∧ rz ≤ π)
    (hy : -(π / 2) < ry ∧ ry < π / 2) (hc : wprEps ≤ Real.cos ry) :
    toWpr (eulerMat rx ry rz) = (rx, ry, rz) := by
  obtain ⟨e0, e1, e2⟩ := eulerMat_entries rx ry rz
  have hcy : 0 < Real.cos ry := lt_of_lt_of_le wprEps_pos.1 hc
  have hcosy : Scalar.sqrt ((eulerMat rx ry rz).r0.x * (eulerMat rx ry rz).r0.x +
      (eulerMat rx ry rz).r0.y * (eulerMat rx ry rz).r0.y) = Real.cos ry := by
    rw [e0, sqrtR]
    have : Real.cos ry * Real.cos rz * (Real.cos ry * Real.cos rz) + -(Real.cos ry * Real.sin rz) * -(Real.cos ry * Real.sin rz)
        = Real.cos ry * Real.cos ry := by
      have := Real.sin_sq_add_cos_sq rz; nlinarith
    rw [this]; exact Real.sqrt_mul_self hcy.le
  unfold toWpr
  simp only [hcosy]
  have hn1 : ¬ ((decide (Real.cos ry < wprEps) && decide (0 < (eulerMat rx ry rz).r0.z)) = true) := by
    simp [not_lt.mpr hc]
  have hn2 : ¬ (Real.cos ry < wprEps) := not_lt.mpr hc
  rw [if_neg hn1, if_neg hn2, e1, e2, e0]
  simp only [neg_neg, Prod.mk.injEq]
  refine ⟨?_, ?_, ?_⟩
  · have h := atan2_sin_cos (Real.cos ry) rx hcy hx.1 hx.2
    rw [show Real.sin rx * Real.cos ry = Real.cos ry * Real.sin rx by ring,
      show Real.cos rx * Real.cos ry = Real.cos ry * Real.cos rx by ring]
    exact h
  · have hpi := Real.pi_pos
    have h := atan2_sin_cos 1 ry one_pos (by linarith [hy.1]) (by linarith [hy.2])
    simpa using h
  · exact atan2_sin_cos (Real.cos ry) rz hcy hz.1 hz.2

/-- Exactly at gimbal lock (`ry = π/2`) the decomposition returns another triple `(w, π/2, 0)`
    whose matrix is the SAME rotation: the round trip is exact on the matrix. -/
theorem gimbal_matrix_roundtrip (rx rz w : ℝ) (hc : Real.cos w = Real.cos (rx + rz)) (hs : Real.sin w = Real.sin (rx + rz)) :
    eulerMat w (π / 2) 0 = eulerMat rx (π / 2) rz := by
  simp only [eulerMat, rotX, rotY, rotZ, Mat3.mul, Mat3.col0, Mat3.col1, Mat3.col2, V3.dot, cosS, sinS,
    Real.cos_pi_div_two, Real.sin_pi_div_two, Real.cos_zero, Real.sin_zero, Mat3.mk.injEq, V3.mk.injEq]
  rw [Real.cos_add] at hc
  rw [Real.sin_add] at hs
  constructorm* _ ∧ _
  all_goals (try trivial)
  all_goals (try linarith)

theorem toWpr_gimbal (rx rz : ℝ) :
    let m := eulerMat rx (π / 2) rz
    eulerMat (toWpr m).1 (toWpr m).2.1 (toWpr m).2.2 = m := by
  intro m
  have hm0 : m.r0 = ⟨0, 0, 1⟩ := by
    obtain ⟨e0, _, _⟩ := eulerMat_entries rx (π / 2) rz
    show (eulerMat rx (π / 2) rz).r0 = _
    rw [e0]; simp
  have hm1 : m.r1.x = Real.sin (rx + rz) ∧ m.r1.y = Real.cos (rx + rz) := by
    show (eulerMat rx (π / 2) rz).r1.x = _ ∧ (eulerMat rx (π / 2) rz).r1.y = _
    simp only [eulerMat, rotX, rotY, rotZ, Mat3.mul, Mat3.col0, Mat3.col1, Mat3.col2, V3.dot, cosS, sinS,
      Real.cos_pi_div_two, Real.sin_pi_div_two, Real.sin_add, Real.cos_add]
    constructor <;> ring
  have hw : toWpr m = (Scalar.atan2 m.r1.x m.r1.y, π / 2, 0) := by
    unfold toWpr
    rw [hm0]
    have h1 : (decide (Scalar.sqrt ((0:ℝ) * 0 + 0 * 0) < wprEps) && decide ((0:ℝ) < 1)) = true := by
      rw [sqrtR]; simp [wprEps_pos.1]
    simp only [h1, if_true]
    rfl
  rw [hw]
  dsimp only
  rw [hm1.1, hm1.2]
  have hu : Real.cos (rx + rz) * Real.cos (rx + rz) + Real.sin (rx + rz) * Real.sin (rx + rz) = 1 := by
    have := Real.sin_sq_add_cos_sq (rx + rz); nlinarith
  exact gimbal_matrix_roundtrip rx rz _ (cos_atan2_unit _ _ hu) (sin_atan2_unit _ _ hu)

/-- Regression witness for the defect fixed in /repo (D17): the pre-fix test `sin y > 1 − ε` already
    fires for `sin y = 1 − ε/2`, i.e. a pitch about `√ε ≈ 1e-4` rad away from the pole, where
    `cos y` is far above `ε` and the locked formulas are wrong. -/
theorem toWpr_prefix_band : toWprLocked_prefix ((1 : ℝ) - wprEps / 2) = true := by
  unfold toWprLocked_prefix
  have := wprEps_pos.1
  simp only [decide_eq_true_eq]; linarith

end C08
