import Engeom.Model.Align
theorem C08_placeholder : True := trivial
