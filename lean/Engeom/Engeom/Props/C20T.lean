import Engeom.Generated.RsC20
/-
  C20 — translation tie: the per-face body of `calc_face_angles` (src/geom3/mesh/conformal.rs,
  regenerated on every run as a code fragment) is the model's `faceAngles` for every scalar type.
-/
set_option linter.unusedSectionVars false
namespace C20T
variable {α : Type} [Add α] [Sub α] [Mul α] [Div α] [Neg α] [LT α] [LE α]
  [DecidableLT α] [DecidableLE α] [OfNat α 0] [OfNat α 1] [OfNat α 2] [Scalar α]
theorem face_angles_eq (a b c : α) : GenRs.face_angles a b c = faceAngles a b c := rfl
end C20T
