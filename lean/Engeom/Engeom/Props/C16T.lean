import Engeom.Generated.RsC16
import Engeom.Generated.Consts
/-
  C16 — translation tie.  The two direction choices of the deviation functions — the `let normal = if …`
  of `point_curve2_deviation` (src/metrology/line_profiles.rs) and the `let d = match dist_mode …` of
  `Mesh::measure_point_deviation` (src/geom3/mesh/measurement.rs) — are regenerated from the /repo
  working tree by tools/rs2lean.py on every run and are, for every scalar type, the model functions
  `curveDevNormal` / `meshDevDir` the theorems of Props/C16 are about (thresholds included: the
  regenerated literals must reduce to the constants extracted into Generated/Consts).
-/
namespace C16T
set_option linter.unusedSectionVars false
variable {α : Type} [Add α] [Sub α] [Mul α] [Div α] [Neg α] [LT α] [LE α]
  [DecidableLT α] [DecidableLE α] [OfNat α 0] [OfNat α 1] [OfNat α 2] [Scalar α] [Inhabited α]

theorem curve_dev_normal_eq (p0 n q : V2 α) :
    GenRs.curve_dev_normal (V2.sub q p0) ⟨p0, n⟩ = curveDevNormal p0 n q := rfl

theorem mesh_dev_dir_eq (c n q : V3 α) (m : DistMode) :
    GenRs.mesh_dev_dir q ⟨c, n⟩ m = meshDevDir c n q m := by
  cases m <;> rfl

/-! ### `SurfaceDeviationSet` (the cached indices of the extreme deviations) -/

/-- `SurfaceDeviationSet::new`: `enumerate().max_by(..)` / `min_by(..)` are, by the contracts of
    `Iterator::max_by` (the LAST maximal element) and `min_by` (the FIRST minimal one), the model's scans -/
theorem devset_new_eq (vs : List α) :
    (DevSet.new vs).maxIdx = (GenRs.devset_new vs).1 ∧ (DevSet.new vs).minIdx = (GenRs.devset_new vs).2 :=
  ⟨rfl, rfl⟩

/-- `SurfaceDeviationSet::push` on a set whose cached indices are in range (the invariant `DevSetInv` of
    Props/C16, preserved by every operation): the regenerated body is the model's `DevSet.push` -/
theorem devset_push_eq (s : DevSet α) (d : α)
    (hmax : ∀ i, s.maxIdx = some i → i < s.values.length) (hmin : ∀ i, s.minIdx = some i → i < s.values.length) :
    GenRs.devset_push s.values s.maxIdx s.minIdx d = ((s.push d).values, (s.push d).maxIdx, (s.push d).minIdx) := by
  unfold GenRs.devset_push DevSet.push getAt
  have hget : ∀ i, i < s.values.length → s.values.getD i default = (s.values[i]?).getD d := by
    intro i hi
    simp [List.getD_eq_getElem?_getD, List.getElem?_eq_getElem hi]
  cases hmx : s.maxIdx with
  | none =>
    cases hmn : s.minIdx with
    | none => simp
    | some j =>
      have hj := hmin j hmn
      simp only [Option.isNone_none, Option.isNone_some, Bool.true_or, Bool.false_or, if_true, Option.getD_some]
      simp only [hget j hj]
      by_cases h : d < (s.values[j]?).getD d <;> simp [h]
  | some i =>
    have hi := hmax i hmx
    cases hmn : s.minIdx with
    | none =>
      simp only [Option.isNone_none, Option.isNone_some, Bool.true_or, Bool.false_or, if_true, Option.getD_some]
      simp only [hget i hi]
      by_cases h : (s.values[i]?).getD d < d <;> simp [h]
    | some j =>
      have hj := hmin j hmn
      simp only [Option.isNone_some, Bool.false_or, Option.getD_some]
      simp only [hget i hi, hget j hj]
      by_cases h : (s.values[i]?).getD d < d <;> by_cases h2 : d < (s.values[j]?).getD d <;> simp [h, h2]
end C16T
