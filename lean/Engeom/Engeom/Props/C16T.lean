import Engeom.Generated.RsC16
import Engeom.Generated.Consts
/-
  C16 — translation tie.  The two direction choices of the deviation functions — the `let normal = if …`
  of `point_curve2_deviation` (src/metrology/line_profiles.rs) and the `let d = match dist_mode …` of
  `Mesh::measure_point_deviation` (src/geom3/mesh/measurement.rs) — are regenerated from the /repo
  working tree by tools/rs2lean.py on every run and are, for every scalar type, the model functions
  `curveDevNormal` / `meshDevDir` the theorems of Props/C16 are about (thresholds included: the
  regenerated literals must reduce to the constants extracted into Generated/Consts).
-/
namespace C16T
set_option linter.unusedSectionVars false
variable {α : Type} [Add α] [Sub α] [Mul α] [Div α] [Neg α] [LT α] [LE α]
  [DecidableLT α] [DecidableLE α] [OfNat α 0] [OfNat α 1] [OfNat α 2] [Scalar α]

theorem curve_dev_normal_eq (p0 n q : V2 α) :
    GenRs.curve_dev_normal (V2.sub q p0) ⟨p0, n⟩ = curveDevNormal p0 n q := rfl

theorem mesh_dev_dir_eq (c n q : V3 α) (m : DistMode) :
    GenRs.mesh_dev_dir q ⟨c, n⟩ m = meshDevDir c n q m := by
  cases m <;> rfl
end C16T
