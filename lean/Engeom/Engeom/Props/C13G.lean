import Engeom.Props.C13
/-
  C13 (continued) — the geometry of one crossing: edge ∩ plane, face ∩ plane, conservation of area
  when a triangle is cut, and compatibility with rigid motions.  Every ordered field.
-/

namespace C13

variable {F : Type} [Field F] [LinearOrder F] [IsStrictOrderedRing F]

/-- the parameter of the crossing point along the edge, in terms of the two signed distances -/
theorem crossPoint_param (P : Plane3 F) (a b : V3 F) :
    crossPoint P a b =
      V3.add a (V3.smul (-(P.signedDistance a) / (P.signedDistance b - P.signedDistance a)) (V3.sub b a)) := by
  unfold crossPoint; dsimp only
  congr 2
  simp only [Plane3.signedDistance, V3.dot, V3.sub]
  congr 1 <;> ring

/-- **The crossing point of an edge whose ends are at different signed distances lies on the
    plane.** -/
theorem crossPoint_on_plane (P : Plane3 F) (a b : V3 F)
    (h : P.signedDistance a ≠ P.signedDistance b) : P.signedDistance (crossPoint P a b) = 0 := by
  have hne : P.signedDistance b - P.signedDistance a ≠ 0 := sub_ne_zero.mpr (Ne.symm h)
  rw [crossPoint_param]
  simp only [Plane3.signedDistance, V3.dot, V3.add, V3.smul, V3.sub] at hne ⊢
  field_simp
  ring

/-- **… and strictly inside the edge when the ends are strictly on opposite sides** -/
theorem crossPoint_inside (P : Plane3 F) (a b : V3 F)
    (h : (P.signedDistance a < 0 ∧ 0 < P.signedDistance b) ∨
         (P.signedDistance b < 0 ∧ 0 < P.signedDistance a)) :
    ∃ t : F, 0 < t ∧ t < 1 ∧ crossPoint P a b = V3.add a (V3.smul t (V3.sub b a)) := by
  refine ⟨-(P.signedDistance a) / (P.signedDistance b - P.signedDistance a), ?_, ?_,
    crossPoint_param P a b⟩
  · rcases h with ⟨ha, hb⟩ | ⟨hb, ha⟩
    · exact div_pos (by linarith) (by linarith)
    · exact div_pos_of_neg_of_neg (by linarith) (by linarith)
  · rcases h with ⟨ha, hb⟩ | ⟨hb, ha⟩
    · rw [div_lt_one (by linarith)]; linarith
    · rw [div_lt_one_of_neg (by linarith)]; linarith

/-- a point of the section lying on one edge `(a, b)` of a face, strictly between its ends -/
def CrossesEdge (P : Plane3 F) (x a b : V3 F) : Prop :=
  x = crossPoint P a b ∧
    ((P.signedDistance a < 0 ∧ 0 < P.signedDistance b) ∨ (P.signedDistance b < 0 ∧ 0 < P.signedDistance a))

theorem CrossesEdge.on_plane {P : Plane3 F} {x a b : V3 F} (h : CrossesEdge P x a b) :
    P.signedDistance x = 0 := by
  obtain ⟨rfl, hs⟩ := h
  apply crossPoint_on_plane
  rcases hs with ⟨h1, h2⟩ | ⟨h1, h2⟩ <;> intro e <;> linarith

/-- **The crossing segment of a face** (plane through none of its vertices): both ends lie on the
    plane and strictly inside two different edges of that face — hence on the mesh surface, joined
    across exactly that face. -/
theorem faceCrossing_spec (P : Plane3 F) (ia ib ic : Nat) (a b c : V3 F)
    (ha : P.signedDistance a ≠ 0) (hb : P.signedDistance b ≠ 0) (hc : P.signedDistance c ≠ 0)
    {k1 k2 : Nat × Nat} {p q : V3 F}
    (h : faceCrossing P ia ib ic a b c = some ((k1, p), (k2, q))) :
    (CrossesEdge P p c a ∧ CrossesEdge P q a b) ∨ (CrossesEdge P p a b ∧ CrossesEdge P q b c) ∨
      (CrossesEdge P p b c ∧ CrossesEdge P q c a) := by
  have pos : ∀ x : F, x ≠ 0 → ¬ x < 0 → 0 < x := fun x hx hn =>
    lt_of_le_of_ne (not_lt.mp hn) (Ne.symm hx)
  unfold faceCrossing at h; dsimp only at h
  by_cases sa : P.signedDistance a < 0 <;> by_cases sb : P.signedDistance b < 0 <;>
    by_cases sc : P.signedDistance c < 0 <;>
    simp only [sa, sb, sc, decide_true, decide_false, and_self, and_true, and_false, if_true, if_false,
      Bool.true_eq_false, Bool.false_eq_true, Option.some.injEq, Prod.mk.injEq, reduceCtorEq] at h
  · -- a, b below, c above: edges (b,c) and (c,a)
    obtain ⟨⟨_, rfl⟩, ⟨_, rfl⟩⟩ := h
    exact Or.inr (Or.inr ⟨⟨rfl, Or.inl ⟨sb, pos _ hc sc⟩⟩, ⟨rfl, Or.inr ⟨sa, pos _ hc sc⟩⟩⟩)
  · -- a, c below, b above: edges (a,b) and (b,c)
    obtain ⟨⟨_, rfl⟩, ⟨_, rfl⟩⟩ := h
    exact Or.inr (Or.inl ⟨⟨rfl, Or.inl ⟨sa, pos _ hb sb⟩⟩, ⟨rfl, Or.inr ⟨sc, pos _ hb sb⟩⟩⟩)
  · -- a below, b, c above: edges (c,a) and (a,b)
    obtain ⟨⟨_, rfl⟩, ⟨_, rfl⟩⟩ := h
    exact Or.inl ⟨⟨rfl, Or.inr ⟨sa, pos _ hc sc⟩⟩, ⟨rfl, Or.inl ⟨sa, pos _ hb sb⟩⟩⟩
  · -- a above, b, c below: edges (c,a) and (a,b)
    obtain ⟨⟨_, rfl⟩, ⟨_, rfl⟩⟩ := h
    exact Or.inl ⟨⟨rfl, Or.inl ⟨sc, pos _ ha sa⟩⟩, ⟨rfl, Or.inr ⟨sb, pos _ ha sa⟩⟩⟩
  · -- b below, a, c above: edges (a,b) and (b,c)
    obtain ⟨⟨_, rfl⟩, ⟨_, rfl⟩⟩ := h
    exact Or.inr (Or.inl ⟨⟨rfl, Or.inr ⟨sb, pos _ ha sa⟩⟩, ⟨rfl, Or.inl ⟨sb, pos _ hc sc⟩⟩⟩)
  · -- c below, a, b above: edges (b,c) and (c,a)
    obtain ⟨⟨_, rfl⟩, ⟨_, rfl⟩⟩ := h
    exact Or.inr (Or.inr ⟨⟨rfl, Or.inr ⟨sc, pos _ hb sb⟩⟩, ⟨rfl, Or.inl ⟨sc, pos _ ha sa⟩⟩⟩)

/-- a face whose vertices are all on one side is not crossed -/
theorem faceCrossing_none (P : Plane3 F) (ia ib ic : Nat) (a b c : V3 F)
    (h : (P.signedDistance a < 0 ↔ P.signedDistance b < 0) ∧
         (P.signedDistance b < 0 ↔ P.signedDistance c < 0)) :
    faceCrossing P ia ib ic a b c = none := by
  unfold faceCrossing; dsimp only
  have e1 : decide (P.signedDistance a < 0) = decide (P.signedDistance b < 0) := by
    rw [decide_eq_decide]; exact h.1
  have e2 : decide (P.signedDistance b < 0) = decide (P.signedDistance c < 0) := by
    rw [decide_eq_decide]; exact h.2
  rw [if_pos ⟨e1, e2⟩]

/-! ### cutting a triangle conserves area -/

/-- The 1 + 2 triangles into which `local_split` cuts a face crossed on the edges `(c,a)` at `i₁`
    and `(a,b)` at `i₂`: each piece's vector area is a non-negative multiple of the face's, and the
    multiples add up to one — so the (scalar) areas of the pieces add up to the area of the face. -/
theorem split_area_edge_edge (a b c : V3 F) (s t : F) :
    let i2 := V3.add a (V3.smul s (V3.sub b a))
    let i1 := V3.add c (V3.smul t (V3.sub a c))
    areaVec2 a i2 i1 = V3.smul (s * (1 - t)) (areaVec2 a b c) ∧
    areaVec2 i2 b c = V3.smul (1 - s) (areaVec2 a b c) ∧
    areaVec2 i2 c i1 = V3.smul (s * t) (areaVec2 a b c) ∧
    s * (1 - t) + (1 - s) + s * t = 1 := by
  simp only [areaVec2, V3.cross, V3.sub, V3.add, V3.smul, V3.mk.injEq]
  refine ⟨⟨?_, ?_, ?_⟩, ⟨?_, ?_, ?_⟩, ⟨?_, ?_, ?_⟩, ?_⟩ <;> ring

/-- the two triangles when the plane passes through vertex `c` and crosses `(a,b)` at `i` -/
theorem split_area_vertex_edge (a b c : V3 F) (s : F) :
    let i := V3.add a (V3.smul s (V3.sub b a))
    areaVec2 c a i = V3.smul s (areaVec2 a b c) ∧
    areaVec2 b c i = V3.smul (1 - s) (areaVec2 a b c) ∧ s + (1 - s) = 1 := by
  simp only [areaVec2, V3.cross, V3.sub, V3.add, V3.smul, V3.mk.injEq]
  refine ⟨⟨?_, ?_, ?_⟩, ⟨?_, ?_, ?_⟩, ?_⟩ <;> ring

/-! ### sectioning commutes with rigid motion -/

/-- moving the edge and the plane together moves the crossing point -/
theorem crossPoint_equivariant (T : Iso3 F) (hT : C03.IsRot3 T) (P : Plane3 F)
    (hn : V3.dot P.normal P.normal = 1) (a b : V3 F) :
    crossPoint (P.transformBy T) (T.apply a) (T.apply b) = T.apply (crossPoint P a b) := by
  rw [crossPoint_param, crossPoint_param, C03.plane_signedDistance_invariant T hT P hn,
    C03.plane_signedDistance_invariant T hT P hn, C03.sub_apply]
  exact C03.applyVec_add_smul T _ _ _

/-- … and does not change which faces are crossed nor by which edges -/
theorem faceCrossing_equivariant (T : Iso3 F) (hT : C03.IsRot3 T) (P : Plane3 F)
    (hn : V3.dot P.normal P.normal = 1) (ia ib ic : Nat) (a b c : V3 F) :
    faceCrossing (P.transformBy T) ia ib ic (T.apply a) (T.apply b) (T.apply c) =
      (faceCrossing P ia ib ic a b c).map fun s => ((s.1.1, T.apply s.1.2), (s.2.1, T.apply s.2.2)) := by
  unfold faceCrossing; dsimp only
  simp only [C03.plane_signedDistance_invariant T hT P hn, crossPoint_equivariant T hT P hn]
  split_ifs <;> rfl

/-- non-vacuity: the plane z = 0 crosses the edge from (0,0,-1) to (0,0,3) at the origin -/
example : crossPoint (⟨⟨0, 0, 1⟩, 0⟩ : Plane3 ℚ) ⟨0, 0, -1⟩ ⟨0, 0, 3⟩ = ⟨0, 0, 0⟩ := by
  simp only [crossPoint, V3.dot, V3.sub, V3.add, V3.smul]; norm_num

end C13
