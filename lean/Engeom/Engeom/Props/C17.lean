import Engeom.Model.Series
import Mathlib.Tactic.Linarith
import Mathlib.Tactic.Ring
import Mathlib.Tactic.FieldSimp
import Mathlib.Tactic.Positivity
import Mathlib.Algebra.Order.Field.Basic
import Mathlib.Data.Rat.Defs
/-
  C17 — Series and discrete domains stay sorted, finite and function-preserving.
  (finiteness: the theorems are over an ordered field, every value is finite by construction;
  the NaN / ±∞ rejection of the Rust constructors is covered by the correspondence run.)
-/

namespace C17

variable {F : Type} [Field F] [LinearOrder F] [IsStrictOrderedRing F]

/-- ascending abscissae -/
def Sorted (vs : List F) : Prop := vs.Pairwise (· ≤ ·)
/-- strictly ascending series abscissae (a function graph) -/
def StrictX (s : Ser F) : Prop := s.Pairwise (fun p q => p.1 < q.1)

omit [Field F] [IsStrictOrderedRing F] in
theorem ascending_iff (vs : List F) : ascending vs = true ↔ Sorted vs := by
  unfold Sorted
  induction vs with
  | nil => simp [ascending]
  | cons a r ih =>
    cases r with
    | nil => simp [ascending]
    | cons b r =>
      simp only [ascending, Bool.and_eq_true, decide_eq_true_eq, ih, List.pairwise_cons]
      constructor
      · rintro ⟨hab, h1, h2⟩
        refine ⟨?_, h1, h2⟩
        intro c hc
        rcases List.mem_cons.mp hc with rfl | hc
        · exact hab
        · exact hab.trans (h1 c hc)
      · rintro ⟨h0, h1, h2⟩
        exact ⟨h0 b (by simp), h1, h2⟩

omit [Field F] [IsStrictOrderedRing F] in
/-- `try_from` accepts exactly the ascending vectors, and returns them unchanged. -/
theorem domTryFrom_iff (vs w : List F) : domTryFrom vs = some w ↔ (w = vs ∧ Sorted vs) := by
  unfold domTryFrom
  split_ifs with h
  · simp [(ascending_iff vs).mp h, eq_comm]
  · simp only [reduceCtorEq, false_iff, not_and]
    intro _ hs; exact h ((ascending_iff vs).mpr hs)

omit [Field F] [IsStrictOrderedRing F] in
/-- `push` either keeps the domain ascending (appending the value) or rejects. -/
theorem domPush_sorted (vs : List F) (v : F) (hs : Sorted vs) :
    (∀ w, domPush vs v = some w → w = vs ++ [v] ∧ Sorted w) ∧
    (domPush vs v = none → ∃ l, vs.getLast? = some l ∧ v < l) := by
  unfold domPush
  cases hl : vs.getLast? with
  | none =>
    have : vs = [] := List.getLast?_eq_none_iff.mp hl
    subst this
    exact ⟨fun w h => by simp at h; subst h; simp [Sorted], fun h => by simp at h⟩
  | some l =>
    simp only
    split_ifs with hlt
    · exact ⟨fun w h => by simp at h, fun _ => ⟨l, rfl, hlt⟩⟩
    · refine ⟨fun w h => ?_, fun h => by simp at h⟩
      have hw : w = vs ++ [v] := by simpa [eq_comm] using h
      refine ⟨hw, ?_⟩
      rw [hw]
      unfold Sorted at *
      rw [List.pairwise_append]
      refine ⟨hs, by simp, ?_⟩
      intro a ha b hb
      have hb' : b = v := by simpa using hb
      rw [hb']
      have hal : a ≤ l := by
        obtain ⟨pre, rfl⟩ : ∃ pre, vs = pre ++ [l] := by
          have hne : vs ≠ [] := by intro h0; subst h0; simp at hl
          refine ⟨vs.dropLast, ?_⟩
          have := List.dropLast_append_getLast hne
          rw [List.getLast?_eq_some_getLast hne] at hl
          rw [← Option.some.inj hl]; exact this.symm
        rcases List.mem_append.mp ha with ha | ha
        · exact (List.pairwise_append.mp hs).2.2 a ha l (by simp)
        · have : a = l := by simpa using ha
          rw [this]
      exact hal.trans (not_lt.mp hlt)

/-- evenly spaced values with a non-negative step are ascending -/
theorem linValues_sorted (start step : F) (hstep : 0 ≤ step) (n : Nat) :
    Sorted (linValues (fun i : Nat => (i : F)) start step n) := by
  unfold Sorted linValues
  rw [List.pairwise_map]
  have : (List.range n).Pairwise (· < ·) := List.pairwise_lt_range
  refine this.imp ?_
  intro i j hij
  have : (i : F) ≤ (j : F) := by exact_mod_cast hij.le
  nlinarith

/-- `linear` with the bounds in EITHER order: ascending, `n` values, from the smaller to the
    larger bound — never collapsed. -/
theorem domLinear_spec (a b : F) (n : Nat) (hn : 2 ≤ n) :
    Sorted (domLinear (fun i : Nat => (i : F)) a b n) ∧
    (domLinear (fun i : Nat => (i : F)) a b n).length = n ∧
    (domLinear (fun i : Nat => (i : F)) a b n).head? = some (min a b) ∧
    (domLinear (fun i : Nat => (i : F)) a b n).getLast? = some (max a b) := by
  have hmin : smin a b = min a b := by
    unfold smin; split_ifs with h
    · exact (min_eq_left h).symm
    · exact (min_eq_right (not_le.mp h).le).symm
  have hmax : smax a b = max a b := by
    unfold smax; split_ifs with h
    · exact (max_eq_right h).symm
    · exact (max_eq_left (not_le.mp h).le).symm
  have hle : min a b ≤ max a b := min_le_max
  have hn1 : (0 : F) < ((n - 1 : Nat) : F) := by
    have : 0 < n - 1 := by omega
    exact_mod_cast this
  unfold domLinear
  simp only [hmin, hmax]
  refine ⟨linValues_sorted _ _ (div_nonneg (by linarith) hn1.le) n, by simp [linValues], ?_, ?_⟩
  · obtain ⟨m, rfl⟩ : ∃ m, n = m + 1 := ⟨n - 1, by omega⟩
    simp [linValues, List.range_succ_eq_map]
  · obtain ⟨m, rfl⟩ : ∃ m, n = m + 1 := ⟨n - 1, by omega⟩
    simp only [linValues, List.range_succ, List.map_append, List.map_cons, List.map_nil]
    rw [List.getLast?_append]
    simp only [List.getLast?_singleton, Option.some_or, Option.some.injEq]
    have : ((m + 1 - 1 : Nat) : F) = (m : F) := by simp
    rw [this]
    have hm : (m : F) ≠ 0 := by
      have : 0 < m := by omega
      exact_mod_cast this.ne'
    field_simp
    ring

/-- Regression witness for the defect fixed in /repo (D6): the shadowed `start` made reversed
    bounds collapse onto the smaller one. -/
theorem domLinear_prefix_collapses :
    domLinear_prefix (fun i : Nat => (i : ℚ)) 1 0 3 = [0, 0, 0] := by
  norm_num [domLinear_prefix, linValues, smin, smax, List.range_succ]

example : domLinear (fun i : Nat => (i : ℚ)) 1 0 3 = [0, 1/2, 1] := by
  norm_num [domLinear, linValues, smin, smax, List.range_succ]

/-! ### series derived by scaling / shifting -/

def SortedX (s : Ser F) : Prop := s.Pairwise (fun p q => p.1 ≤ q.1)

theorem serShiftBy_sorted (s : Ser F) (dx dy : F) (hs : SortedX s) :
    SortedX (serShiftBy s dx dy) ∧ (serShiftBy s dx dy).length = s.length := by
  unfold serShiftBy SortedX at *
  refine ⟨?_, by simp⟩
  rw [List.pairwise_map]
  exact hs.imp (fun h => by simpa using h)

/-- scaling the abscissae by ANY factor (negative ones reverse the order of the samples) keeps
    the series ascending with matching ordinates -/
theorem serScaledBy_sorted (s : Ser F) (sx sy : F) (hs : SortedX s) :
    SortedX (serScaledBy s sx sy) ∧ (serScaledBy s sx sy).length = s.length := by
  unfold serScaledBy SortedX at *
  split_ifs with hneg
  · refine ⟨?_, by simp⟩
    rw [List.pairwise_reverse, List.pairwise_map]
    exact hs.imp (fun {p q} h => by
      show q.1 * sx ≤ p.1 * sx
      exact mul_le_mul_of_nonpos_right h hneg.le)
  · refine ⟨?_, by simp⟩
    rw [List.pairwise_map]
    exact hs.imp (fun {p q} h => by
      show p.1 * sx ≤ q.1 * sx
      exact mul_le_mul_of_nonneg_right h (not_lt.mp hneg))

omit [Field F] [IsStrictOrderedRing F] in
theorem serRemoveNan_sorted (s : List (F × Option F)) (hs : s.Pairwise (fun p q => p.1 ≤ q.1)) :
    SortedX (serRemoveNan s) := by
  unfold serRemoveNan SortedX
  rw [List.pairwise_filterMap]
  refine hs.imp ?_
  intro p q h a ha b hb
  cases hp : p.2 <;> cases hq : q.2 <;> simp_all
  obtain ⟨rfl⟩ := ha; obtain ⟨rfl⟩ := hb; exact h

/-! ### interpolation -/

omit [IsStrictOrderedRing F] in
theorem interpAux_knot : ∀ (s : Ser F), StrictX s → ∀ a y, (a, y) ∈ s → interpAux s a = some y
  | [], _, _, _, h => by simp at h
  | [(b, yb)], _, a, y, h => by
    simp only [List.mem_singleton, Prod.mk.injEq] at h
    obtain ⟨rfl, rfl⟩ := h
    simp [interpAux]
  | (b, yb) :: (c, yc) :: r, hs, a, y, h => by
    rcases List.mem_cons.mp h with h | h
    · obtain ⟨rfl, rfl⟩ := Prod.mk.inj h
      simp [interpAux]
    · have hs' := List.pairwise_cons.mp hs
      have hba : b < a := hs'.1 (a, y) h
      have ih := interpAux_knot ((c, yc) :: r) hs'.2 a y h
      have hca : ¬ a < c := by
        rcases List.mem_cons.mp h with h | h
        · obtain ⟨rfl, rfl⟩ := Prod.mk.inj h; exact lt_irrefl _
        · exact not_lt.mpr ((List.pairwise_cons.mp hs'.2).1 (a, y) h).le
      simp only [interpAux, hba, if_true, hca, if_false, ih]

omit [IsStrictOrderedRing F] in
/-- Interpolation returns the stored value at every knot. -/
theorem interp_knot (s : Ser F) (hs : StrictX s) (a y : F) (h : (a, y) ∈ s) : interp s a = some y := by
  cases s with
  | nil => simp at h
  | cons p r =>
    obtain ⟨b, yb⟩ := p
    have hnot : ¬ a < b := by
      rcases List.mem_cons.mp h with h | h
      · obtain ⟨rfl, rfl⟩ := Prod.mk.inj h; exact lt_irrefl _
      · exact not_lt.mpr ((List.pairwise_cons.mp hs).1 (a, y) h).le
    simp only [interp, hnot, if_false]
    exact interpAux_knot _ hs a y h

omit [IsStrictOrderedRing F] in
theorem interpAux_blend : ∀ (pre : Ser F) (a ya b yb : F) (post : Ser F),
    StrictX (pre ++ (a, ya) :: (b, yb) :: post) → ∀ x, a < x → x < b →
    interpAux (pre ++ (a, ya) :: (b, yb) :: post) x = some (ya + (yb - ya) / (b - a) * (x - a))
  | [], a, ya, b, yb, post, _, x, h1, h2 => by simp [interpAux, h1, h2]
  | [(c, yc)], a, ya, b, yb, post, hs, x, h1, h2 => by
    have hca : c < a := (List.pairwise_cons.mp hs).1 (a, ya) (by simp)
    have : ¬ x < a := not_lt.mpr h1.le
    simp only [List.singleton_append, interpAux, hca.trans h1, if_true, this, if_false]
    exact interpAux_blend [] a ya b yb post (List.pairwise_cons.mp hs).2 x h1 h2
  | (c, yc) :: (d, yd) :: pre, a, ya, b, yb, post, hs, x, h1, h2 => by
    have hs' := List.pairwise_cons.mp hs
    have hca : c < a := hs'.1 (a, ya) (by simp)
    have hda : d < a := (List.pairwise_cons.mp hs'.2).1 (a, ya) (by simp)
    have : ¬ x < d := not_lt.mpr (hda.trans h1).le
    simp only [List.cons_append, interpAux, hca.trans h1, if_true, this, if_false]
    exact interpAux_blend ((d, yd) :: pre) a ya b yb post hs'.2 x h1 h2

omit [IsStrictOrderedRing F] in
/-- Between two consecutive knots interpolation is the linear blend of their ordinates. -/
theorem interp_blend (pre : Ser F) (a ya b yb : F) (post : Ser F)
    (hs : StrictX (pre ++ (a, ya) :: (b, yb) :: post)) (x : F) (h1 : a < x) (h2 : x < b) :
    interp (pre ++ (a, ya) :: (b, yb) :: post) x = some (ya + (yb - ya) / (b - a) * (x - a)) := by
  have key := interpAux_blend pre a ya b yb post hs x h1 h2
  cases pre with
  | nil => simp only [List.nil_append, interp, not_lt.mpr h1.le, if_false]; simpa using key
  | cons p pre =>
    obtain ⟨c, yc⟩ := p
    have hca : c < a := (List.pairwise_cons.mp hs).1 (a, ya) (by simp)
    simp only [List.cons_append, interp, not_lt.mpr (hca.trans h1).le, if_false]
    simpa using key

omit [IsStrictOrderedRing F] in
theorem interpAux_above : ∀ (s : Ser F), StrictX s → ∀ x, (∀ p ∈ s, p.1 < x) → interpAux s x = none
  | [], _, _, _ => rfl
  | [(b, yb)], _, x, h => by simp [interpAux, h (b, yb) (by simp)]
  | (b, yb) :: (c, yc) :: r, hs, x, h => by
    have hb := h (b, yb) (by simp)
    have hc := h (c, yc) (by simp)
    simp only [interpAux, hb, if_true, not_lt.mpr hc.le, if_false]
    exact interpAux_above ((c, yc) :: r) (List.pairwise_cons.mp hs).2 x (fun p hp => h p (by simp [hp]))

omit [IsStrictOrderedRing F] in
/-- Outside the domain there is no value (the NaN of the Rust code): no extrapolation. -/
theorem interp_outside (s : Ser F) (hs : StrictX s) (x : F)
    (h : (∀ p ∈ s, x < p.1) ∨ (∀ p ∈ s, p.1 < x)) : interp s x = none := by
  cases s with
  | nil => rfl
  | cons p r =>
    obtain ⟨b, yb⟩ := p
    rcases h with h | h
    · simp [interp, h (b, yb) (by simp)]
    · have hb := h (b, yb) (by simp)
      simp only [interp, not_lt.mpr hb.le, if_false]
      exact interpAux_above _ hs x h

/-! ### the trapezoid area is additive over a split at a knot -/

theorem serArea_append_knot : ∀ (l : Ser F) (k : F × F) (r : Ser F),
    serArea (l ++ k :: r) = serArea (l ++ [k]) + serArea (k :: r)
  | [], k, r => by simp [serArea]
  | [p], k, r => by
    cases r with
    | nil => simp [serArea]
    | cons q r => simp [serArea]
  | p :: q :: l, k, r => by
    have ih := serArea_append_knot (q :: l) k r
    simp only [List.cons_append] at ih ⊢
    simp only [serArea]
    rw [ih]; ring

/-- inserting a point that lies on a segment does not change the area under the graph -/
theorem serArea_insert_on_graph (a ya b yb x : F) (hab : a < b) (r : Ser F) :
    serArea ((a, ya) :: (x, ya + (yb - ya) / (b - a) * (x - a)) :: (b, yb) :: r) =
    serArea ((a, ya) :: (b, yb) :: r) := by
  simp only [serArea]
  have : b - a ≠ 0 := sub_ne_zero.mpr hab.ne'
  field_simp
  ring

/-! non-vacuity -/
example : StrictX ([(0, 1), (2, 5), (3, 4)] : Ser ℚ) := by
  norm_num [StrictX]
example : interp ([(0, 1), (2, 5), (3, 4)] : Ser ℚ) 1 = some 3 := by
  have := interp_blend ([] : Ser ℚ) 0 1 2 5 [(3, 4)] (by norm_num [StrictX]) 1 (by norm_num) (by norm_num)
  simpa using this.trans (by norm_num)

end C17
