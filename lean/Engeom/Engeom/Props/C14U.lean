import Engeom.Props.C14
import Engeom.Props.C14T
import Mathlib.Order.Basic
import Mathlib.Order.Defs.LinearOrder
/-
  C14 — "Add, Remove and Keep behave as union, difference and intersection with the faces satisfying the
  criterion" stated about the REGENERATED bodies of `TriangleFilter::mutate` and `mutate_pass_list`
  (src/geom3/mesh/filtering.rs): the membership theorems of Props/C14 about the model, carried over by the
  membership equalities of Props/C14T.
-/
namespace C14U

/-- Add = union with the faces of the mesh that satisfy the predicate -/
theorem mutate_add (indices : List Nat) (n : Nat) (P : Nat → Bool) (i : Nat) :
    i ∈ GenRs.mutate indices n .add P ↔ i ∈ indices ∨ (i < n ∧ P i = true) := by
  have := C14T.mutate_mem ⟨n, indices⟩ .add P i
  rw [this]; exact C14.mutate_add ⟨n, indices⟩ P i

/-- Remove = difference -/
theorem mutate_remove (indices : List Nat) (n : Nat) (P : Nat → Bool) (i : Nat) :
    i ∈ GenRs.mutate indices n .remove P ↔ i ∈ indices ∧ P i = false := by
  have := C14T.mutate_mem ⟨n, indices⟩ .remove P i
  rw [this]; exact C14.mutate_remove ⟨n, indices⟩ P i

/-- Keep = intersection -/
theorem mutate_keep (indices : List Nat) (n : Nat) (P : Nat → Bool) (i : Nat) :
    i ∈ GenRs.mutate indices n .keep P ↔ i ∈ indices ∧ P i = true := by
  have := C14T.mutate_mem ⟨n, indices⟩ .keep P i
  rw [this]; exact C14.mutate_keep ⟨n, indices⟩ P i

/-- merging a pass list (the faces found to satisfy a near-mesh criterion): union, difference, intersection -/
theorem mutate_pass_list_add (indices pass : List Nat) (i : Nat) :
    i ∈ GenRs.mutate_pass_list indices .add pass ↔ i ∈ indices ∨ i ∈ pass := by
  have := C14T.mutate_pass_list_mem ⟨0, indices⟩ .add pass i
  rw [this]; exact C14.mutatePassList_add ⟨0, indices⟩ pass i

theorem mutate_pass_list_remove (indices pass : List Nat) (i : Nat) :
    i ∈ GenRs.mutate_pass_list indices .remove pass ↔ i ∈ indices ∧ i ∉ pass := by
  have := C14T.mutate_pass_list_mem ⟨0, indices⟩ .remove pass i
  rw [this]; exact C14.mutatePassList_remove ⟨0, indices⟩ pass i

/-- in particular Keep with an EMPTY pass list empties the selection -/
theorem mutate_pass_list_keep (indices pass : List Nat) (i : Nat) :
    i ∈ GenRs.mutate_pass_list indices .keep pass ↔ i ∈ indices ∧ i ∈ pass := by
  have := C14T.mutate_pass_list_mem ⟨0, indices⟩ .keep pass i
  rw [this]; exact C14.mutatePassList_keep ⟨0, indices⟩ pass i

theorem keep_nothing_selects_nothing (indices : List Nat) : GenRs.mutate_pass_list indices .keep [] = [] := by
  apply List.eq_nil_iff_forall_not_mem.mpr
  intro i hi
  have := (mutate_pass_list_keep indices [] i).mp hi
  exact absurd this.2 List.not_mem_nil
/-! ### `TriangleFilter::facing`: the per-face predicate (regenerated; `n` is the angle between the face normal and
the given direction when the face has a normal — `Vector::angle` depends on the DIRECTION of its arguments only, which
is why the fragment takes the angle, not the vectors) -/

section Facing
variable {α : Type} [LinearOrder α] [Add α] [Sub α] [Mul α] [Div α] [Neg α]
  [OfNat α 0] [OfNat α 1] [OfNat α 2] [Scalar α]

/-- a face passes exactly when it has a normal and the angle between that normal and the direction is strictly below the
    limit: a face without a normal never passes, and the verdict is a function of that ANGLE alone (so it cannot depend
    on the length of the direction vector the caller gives).  Over any linearly ordered scalar type. -/
theorem facing_iff (n : Option α) (limit : α) :
    GenRs.facing_predicate n limit = true ↔ ∃ a, n = some a ∧ a < limit := by
  unfold GenRs.facing_predicate
  cases n with
  | none => simp
  | some a => simp

/-- a wider limit never loses a face -/
theorem facing_monotone (n : Option α) {l l' : α} (h : l ≤ l') (hp : GenRs.facing_predicate n l = true) :
    GenRs.facing_predicate n l' = true := by
  rw [facing_iff] at hp ⊢
  obtain ⟨a, e, ha⟩ := hp
  exact ⟨a, e, lt_of_lt_of_le ha h⟩
end Facing

end C14U
