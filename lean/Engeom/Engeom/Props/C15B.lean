import Engeom.Model.Hull
import Engeom.Props.C11
/-
  C15 (continued) — the ball-pivot loop of src/geom2/hull.rs (model: `ballPivot`, the code statement
  by statement, compared with the implementation step by step on every run).

  * `ballPivot_chain`: in EVERY result — whatever the points, the start, the direction, the radius
    and the end condition — there is exactly one ball centre per step, every index refers to the
    walk, and the centre reported for a step is one of the intersection points of the two circles of
    radius r about the two consecutive hull points;
  * `touches_on_both`: such a point is exactly one radius from both points (outside the tangency
    band of the circle-circle routine, where the single point returned is within its tolerance);
  * the loop cannot run away: `ballPivot` is total (fuel `3n + 3`, the bound implied by the
    "Loop detected" guard of the code).
  "No input point strictly inside the ball" is decided per case by the oracle, not proved.
-/
set_option linter.unusedSectionVars false
namespace C15

abbrev z2 : V2 ℝ := ⟨0, 0⟩

/-- `c` is an intersection point of the circles of radius `r` about points `a` and `b` -/
def Touches (pts : List (V2 ℝ)) (r : ℝ) (a b : Nat) (c : V2 ℝ) : Prop :=
  c ∈ Circle.intersectionsWith ⟨pts.getD a z2, r⟩ ⟨pts.getD b z2, r⟩

/-- one centre per consecutive pair of the walk -/
def Chain (pts : List (V2 ℝ)) (r : ℝ) : List Nat → List (V2 ℝ) → Prop
  | [_], [] => True
  | a :: b :: rest, c :: cs => Touches pts r a b c ∧ Chain pts r (b :: rest) cs
  | _, _ => False

theorem chain_append (pts : List (V2 ℝ)) (r : ℝ) : ∀ (res : List Nat) (cs : List (V2 ℝ)) (a b : Nat) (c : V2 ℝ),
    Chain pts r res cs → res.getLast? = some a → Touches pts r a b c → Chain pts r (res ++ [b]) (cs ++ [c])
  | [], cs, a, b, c, h, _, _ => by cases cs <;> simp [Chain] at h
  | [x], [], a, b, c, _, hl, ht => by
    simp only [List.getLast?_singleton, Option.some.injEq] at hl
    subst hl
    simp only [List.cons_append, List.nil_append, Chain, and_true]
    exact ht
  | [x], _ :: _, a, b, c, h, _, _ => by simp [Chain] at h
  | x :: y :: rest, [], a, b, c, h, _, _ => by simp [Chain] at h
  | x :: y :: rest, c0 :: cs, a, b, c, h, hl, ht => by
    simp only [Chain] at h
    simp only [List.cons_append, Chain]
    refine ⟨h.1, ?_⟩
    have hl' : (y :: rest).getLast? = some a := by
      rw [List.getLast?_cons_cons] at hl; exact hl
    exact chain_append pts r (y :: rest) cs a b c h.2 hl' ht

theorem chain_lengths (pts : List (V2 ℝ)) (r : ℝ) : ∀ (res : List Nat) (cs : List (V2 ℝ)),
    Chain pts r res cs → res.length = cs.length + 1
  | [], cs, h => by cases cs <;> simp [Chain] at h
  | [_], [], _ => rfl
  | [_], _ :: _, h => by simp [Chain] at h
  | _ :: _ :: _, [], h => by simp [Chain] at h
  | _ :: y :: rest, _ :: cs, h => by
    simp only [Chain] at h
    have := chain_lengths pts r (y :: rest) cs h.2
    simp only [List.length_cons] at this ⊢
    omega

/-! ### the candidate chosen by one pass is an intersection point of the two circles -/

/-- property carried through the two folds of `pivotBest` -/
def BestOK (pts : List (V2 ℝ)) (r : ℝ) (wi : Nat) (best : Option (Nat × V2 ℝ × ℝ)) : Prop :=
  ∀ x, best = some x → Touches pts r wi x.1 x.2.1

theorem pivotCand_ok (pts : List (V2 ℝ)) (r : ℝ) (dirn : AngleDir) (wi ni : Nat) (dir p : V2 ℝ)
    (best : Option (Nat × V2 ℝ × ℝ)) (hp : Touches pts r wi ni p) (hb : BestOK pts r wi best) :
    BestOK pts r wi (pivotCand (pts.getD wi ⟨0, 0⟩) dir r (pts.getD ni ⟨0, 0⟩) dirn ni best p) := by
  unfold pivotCand
  dsimp only
  -- whatever angle is recorded and whatever test skips a candidate: the best so far is either kept
  -- or replaced by the candidate, which touches both circles
  cases best with
  | none =>
    split_ifs
    all_goals first
      | exact hb
      | (intro x hx; simp only [Option.some.injEq] at hx; subst hx; exact hp)
  | some b =>
    simp only
    split_ifs
    all_goals first
      | exact hb
      | (intro x hx; simp only [Option.some.injEq] at hx; subst hx; exact hp)

theorem inner_fold_ok (pts : List (V2 ℝ)) (r : ℝ) (dirn : AngleDir) (wi ni : Nat) (dir : V2 ℝ) :
    ∀ (L : List (V2 ℝ)) (best : Option (Nat × V2 ℝ × ℝ)),
      (∀ p ∈ L, Touches pts r wi ni p) → BestOK pts r wi best →
      BestOK pts r wi (L.foldl (pivotCand (pts.getD wi ⟨0, 0⟩) dir r (pts.getD ni ⟨0, 0⟩) dirn ni) best)
  | [], best, _, hb => hb
  | p :: L, best, hL, hb => by
    rw [List.foldl_cons]
    exact inner_fold_ok pts r dirn wi ni dir L _ (fun q hq => hL q (List.mem_cons_of_mem _ hq))
      (pivotCand_ok pts r dirn wi ni dir p best (hL p List.mem_cons_self) hb)

theorem pivotNeighbour_ok (pts : List (V2 ℝ)) (r : ℝ) (dirn : AngleDir) (wi : Nat) (dir : V2 ℝ) (skip : Option Nat)
    (best : Option (Nat × V2 ℝ × ℝ)) (e : Nat × ℝ) (hb : BestOK pts r wi best) :
    BestOK pts r wi (pivotNeighbour pts r dirn wi dir skip best e) := by
  unfold pivotNeighbour
  split_ifs
  · exact hb
  · exact inner_fold_ok pts r dirn wi e.1 dir _ best (fun p hp => hp) hb

theorem pivotBest_ok (pts : List (V2 ℝ)) (r : ℝ) (dirn : AngleDir) (wi : Nat) (dir : V2 ℝ) (skip : Option Nat) :
    BestOK pts r wi (pivotBest pts r dirn wi dir skip) := by
  unfold pivotBest
  generalize withinR pts (pts.getD wi ⟨0, 0⟩) (r * 2) = N
  have hnone : BestOK pts r wi none := by intro x hx; simp at hx
  revert hnone
  generalize (none : Option (Nat × V2 ℝ × ℝ)) = best
  induction N generalizing best with
  | nil => intro h; exact h
  | cons e N ih =>
    intro hb
    rw [List.foldl_cons]
    exact ih _ (pivotNeighbour_ok pts r dirn wi dir skip best e hb)

/-! ### the loop invariant -/

structure PivotInv (pts : List (V2 ℝ)) (r : ℝ) (start : Nat) (s : PivotState ℝ) : Prop where
  chain : Chain pts r s.results s.centers
  last : s.results.getLast? = some s.wi
  head : s.results.head? = some start

theorem pivotAdvance_inv (pts : List (V2 ℝ)) (r : ℝ) (start : Nat) (stop : PivotEnd) (s : PivotState ℝ) (ni : Nat)
    (c : V2 ℝ) (h : PivotInv pts r start s) (ht : Touches pts r s.wi ni c) :
    PivotInv pts r start (pivotAdvance pts stop s ni c).2 := by
  unfold pivotAdvance
  refine ⟨chain_append pts r s.results s.centers s.wi ni c h.chain h.last ht, by simp, ?_⟩
  have := h.head
  cases hr : s.results with
  | nil => rw [hr] at this; simp at this
  | cons a rest => rw [hr] at this; simpa using this

/-- what a pass can do: stop where it is, or move to a state that satisfies the invariant -/
theorem pivotStep_inv (pts : List (V2 ℝ)) (r : ℝ) (start : Nat) (dirn : AngleDir) (stop : PivotEnd)
    (s : PivotState ℝ) (h : PivotInv pts r start s) :
    ∀ s', (pivotStep pts r dirn stop s = .running s' ∨ pivotStep pts r dirn stop s = .done s') →
      PivotInv pts r start s' := by
  intro s' hs
  unfold pivotStep at hs
  split_ifs at hs with hl
  · rcases hs with hs | hs <;> cases hs
  · cases hb : pivotBest pts r dirn s.wi s.dir (pivotSkip s) with
    | none =>
      simp only [hb] at hs
      rcases hs with hs | hs
      · cases hs
      · cases hs; exact h
    | some x =>
      have ht : Touches pts r s.wi x.1 x.2.1 := pivotBest_ok pts r dirn s.wi s.dir _ x hb
      have hadv := pivotAdvance_inv pts r start stop s x.1 x.2.1 h ht
      simp only [hb] at hs
      split_ifs at hs
      · rcases hs with hs | hs
        · cases hs
        · cases hs; exact hadv
      · rcases hs with hs | hs
        · cases hs; exact hadv
        · cases hs

theorem pivotLoop_inv (pts : List (V2 ℝ)) (r : ℝ) (start : Nat) (dirn : AngleDir) (stop : PivotEnd) :
    ∀ (fuel : Nat) (s s' : PivotState ℝ), PivotInv pts r start s → pivotLoop pts r dirn stop fuel s = some s' →
      PivotInv pts r start s'
  | 0, s, s', _, h => by simp [pivotLoop] at h
  | fuel + 1, s, s', hi, h => by
    unfold pivotLoop at h
    have hs := pivotStep_inv pts r start dirn stop s hi
    cases hp : pivotStep pts r dirn stop s with
    | loopDetected => simp [hp] at h
    | done t =>
      simp only [hp, Option.some.injEq] at h
      subst h
      exact hs t (Or.inr hp)
    | running t =>
      simp only [hp] at h
      exact pivotLoop_inv pts r start dirn stop fuel t s' (hs t (Or.inl hp)) h

/-- **Every result of the ball pivot is a chain: one centre per step, each an intersection point of
    the circles of radius r about the two consecutive hull points; the walk begins at the start.** -/
theorem ballPivot_chain (pts : List (V2 ℝ)) (start : Nat) (sd : V2 ℝ) (stop : PivotEnd) (dirn : AngleDir) (r : ℝ)
    (idx : List Nat) (cs : List (V2 ℝ)) (h : ballPivot pts start sd stop dirn r = some (idx, cs)) :
    Chain pts r idx cs ∧ idx.length = cs.length + 1 ∧ idx.head? = some start := by
  unfold ballPivot at h
  dsimp only at h
  cases hl : pivotLoop pts r dirn stop (3 * pts.length + 3) ⟨start, V2.normalize sd, [start], [], [start]⟩ with
  | none => simp [hl] at h
  | some s =>
    simp only [hl, Option.some.injEq, Prod.mk.injEq] at h
    obtain ⟨rfl, rfl⟩ := h
    have h0 : PivotInv pts r start ⟨start, V2.normalize sd, [start], [], [start]⟩ :=
      ⟨by simp [Chain], by simp, by simp⟩
    have hi := pivotLoop_inv pts r start dirn stop _ _ s h0 hl
    exact ⟨hi.chain, chain_lengths pts r _ _ hi.chain, hi.head⟩

/-- **A ball centre is exactly one radius from both consecutive hull points** (squared distances),
    outside the tangency band of the circle-circle routine. -/
theorem touches_on_both (pts : List (V2 ℝ)) (r : ℝ) (hr : 0 ≤ r) (a b : Nat) (c : V2 ℝ)
    (h : Touches pts r a b c)
    (ht : ¬ (|dist2 (pts.getD a z2) (pts.getD b z2) - (r + r)| < ccTol ∨
             abs (dist2 (pts.getD a z2) (pts.getD b z2) - abs (r - r)) < ccTol)) :
    V2.normSq (V2.sub c (pts.getD a z2)) = r * r ∧ V2.normSq (V2.sub c (pts.getD b z2)) = r * r := by
  unfold Touches at h
  set s : Circle ℝ := ⟨pts.getD a z2, r⟩ with hs
  set o : Circle ℝ := ⟨pts.getD b z2, r⟩ with ho
  by_cases hd : dist2 s.c o.c < ccTol
  · rw [C11.cc_none_concentric s o hd] at h; simp at h
  by_cases h1 : s.r + o.r < dist2 s.c o.c
  · rw [C11.cc_none_separate s o h1] at h; simp at h
  by_cases h2 : dist2 s.c o.c < |s.r - o.r|
  · rw [C11.cc_none_nested s o h2] at h; simp at h
  exact (C11.cc_points_on_both s o hr hr hd h1 h2 ht).2 c h

/-! non-vacuity: two points 1 apart, ball of radius 1: the intersection points exist -/
example : (Circle.intersectionsWith (⟨⟨0, 0⟩, 1⟩ : Circle ℝ) ⟨⟨1, 0⟩, 1⟩).length = 2 := by
  have hd : dist2 (⟨0, 0⟩ : V2 ℝ) ⟨1, 0⟩ = 1 := by
    unfold dist2 V2.norm V2.normSq V2.dot V2.sub
    show Real.sqrt _ = 1
    norm_num
  have tol : (ccTol : ℝ) = 1 / 10000000000 := by
    unfold ccTol; rw [ofRatR]; norm_num [Gen.CC_TOL_num, Gen.CC_TOL_den]
  refine (C11.cc_points_on_both _ _ (by norm_num) (by norm_num) ?_ ?_ ?_ ?_).1
  · simp only [hd, tol]; norm_num
  · simp only [hd]; norm_num
  · simp only [hd]; norm_num
  · simp only [hd, tol]; norm_num

end C15
