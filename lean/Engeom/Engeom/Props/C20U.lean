import Engeom.Props.C20
import Engeom.Props.C20T
/-
  C20 — theorems stated about the REGENERATED per-face body of `calc_face_angles`
  (src/geom3/mesh/conformal.rs, `GenRs.face_angles`), over ℝ.

  For every positively oriented, non-degenerate planar triangle `p q r`, fed with its three side lengths
  (`a` opposite `p`, `b` opposite `q`, `c` opposite `r`), the code's law-of-cosines branch is the one taken
  and the cotangents of the three angles it returns are the algebraic cotangents `cotAt` of the triangle.
  Together with `C20.cot_triangle_identity` and `C20.closed_fan_sum_zero` this is the statement that the
  cotangent weights the code computes reproduce every linear function on a planar mesh.
-/
namespace C20U

/-- triangle inequality for `√(x² + y²)` -/
theorem sqrt_tri (x1 x2 y1 y2 : ℝ) :
    Real.sqrt ((x1 + y1) * (x1 + y1) + (x2 + y2) * (x2 + y2)) ≤
      Real.sqrt (x1 * x1 + x2 * x2) + Real.sqrt (y1 * y1 + y2 * y2) := by
  have hX : 0 ≤ x1 * x1 + x2 * x2 := add_nonneg (mul_self_nonneg _) (mul_self_nonneg _)
  have hY : 0 ≤ y1 * y1 + y2 * y2 := add_nonneg (mul_self_nonneg _) (mul_self_nonneg _)
  set s := Real.sqrt (x1 * x1 + x2 * x2) with hs
  set t := Real.sqrt (y1 * y1 + y2 * y2) with ht
  have hs0 : 0 ≤ s := Real.sqrt_nonneg _
  have ht0 : 0 ≤ t := Real.sqrt_nonneg _
  have hss : s * s = x1 * x1 + x2 * x2 := Real.mul_self_sqrt hX
  have htt : t * t = y1 * y1 + y2 * y2 := Real.mul_self_sqrt hY
  rw [Real.sqrt_le_iff]
  refine ⟨by positivity, ?_⟩
  have hcs : (x1 * y1 + x2 * y2) ≤ s * t := by
    by_contra h
    rw [not_le] at h
    have h0 : 0 ≤ s * t := mul_nonneg hs0 ht0
    have h1 : (s * t) * (s * t) < (x1 * y1 + x2 * y2) * (x1 * y1 + x2 * y2) := by nlinarith
    have h2 : (s * t) * (s * t) = (x1 * x1 + x2 * x2) * (y1 * y1 + y2 * y2) := by
      rw [← hss, ← htt]; ring
    nlinarith [sq_nonneg (x1 * y2 - x2 * y1)]
  nlinarith

/-- the core computation at one corner: `u`, `v` the two edge vectors leaving it, positively oriented -/
theorem corner (u v : V2 ℝ) (hD : 0 < V2.cross u v) :
    let c := Real.sqrt (V2.normSq u)
    let b := Real.sqrt (V2.normSq v)
    let a := Real.sqrt (V2.normSq (V2.sub u v))
    a ≤ b + c ∧ 0 < b ∧ 0 < c ∧
    cotOf (Real.arccos ((b * b + c * c - a * a) / (2 * b * c))) = V2.dot u v / V2.cross u v := by
  intro c b a
  have hB : 0 ≤ V2.normSq u := add_nonneg (mul_self_nonneg _) (mul_self_nonneg _)
  have hC : 0 ≤ V2.normSq v := add_nonneg (mul_self_nonneg _) (mul_self_nonneg _)
  have hA : 0 ≤ V2.normSq (V2.sub u v) := add_nonneg (mul_self_nonneg _) (mul_self_nonneg _)
  have hcc : c * c = V2.normSq u := Real.mul_self_sqrt hB
  have hbb : b * b = V2.normSq v := Real.mul_self_sqrt hC
  have haa : a * a = V2.normSq (V2.sub u v) := Real.mul_self_sqrt hA
  have hc0 : 0 ≤ c := Real.sqrt_nonneg _
  have hb0 : 0 ≤ b := Real.sqrt_nonneg _
  -- Lagrange: (u·v)² + (u×v)² = |u|² |v|²
  have hL : V2.dot u v * V2.dot u v + V2.cross u v * V2.cross u v = V2.normSq u * V2.normSq v := by
    simp only [V2.dot, V2.cross, V2.normSq]; ring
  have hBC : 0 < V2.normSq u * V2.normSq v := by nlinarith [mul_pos hD hD, mul_self_nonneg (V2.dot u v)]
  have hBpos : 0 < V2.normSq u := by
    rcases hB.lt_or_eq with h | h
    · exact h
    · rw [← h] at hBC; simp at hBC
  have hCpos : 0 < V2.normSq v := by
    rcases hC.lt_or_eq with h | h
    · exact h
    · rw [← h] at hBC; simp at hBC
  have hcpos : 0 < c := Real.sqrt_pos.mpr hBpos
  have hbpos : 0 < b := Real.sqrt_pos.mpr hCpos
  have hbc : 0 < b * c := mul_pos hbpos hcpos
  have htri : a ≤ b + c := by
    have := sqrt_tri v.x v.y (u.x - v.x) (u.y - v.y)
    -- |u| ≤ |v| + |u − v| is not what is wanted; use x = u, y = −v instead
    have h2 := sqrt_tri u.x u.y (-v.x) (-v.y)
    have e1 : (u.x + -v.x) * (u.x + -v.x) + (u.y + -v.y) * (u.y + -v.y) = V2.normSq (V2.sub u v) := by
      simp only [V2.normSq, V2.dot, V2.sub]; ring
    have e2 : u.x * u.x + u.y * u.y = V2.normSq u := by simp only [V2.normSq, V2.dot]
    have e3 : -v.x * -v.x + -v.y * -v.y = V2.normSq v := by simp only [V2.normSq, V2.dot]; ring
    rw [e1, e2, e3] at h2
    show Real.sqrt _ ≤ Real.sqrt _ + Real.sqrt _
    linarith
  refine ⟨htri, hbpos, hcpos, ?_⟩
  -- the cosine
  have hnum : b * b + c * c - a * a = 2 * V2.dot u v := by
    rw [hbb, hcc, haa]; simp only [V2.normSq, V2.dot, V2.sub]; ring
  have hcos : (b * b + c * c - a * a) / (2 * b * c) = V2.dot u v / (b * c) := by
    rw [hnum]; field_simp
  rw [hcos]
  set x := V2.dot u v / (b * c) with hx
  have hbc2 : (b * c) * (b * c) = V2.normSq u * V2.normSq v := by
    have : (b * c) * (b * c) = (b * b) * (c * c) := by ring
    rw [this, hbb, hcc]; ring
  have h1x : 1 - x ^ 2 = (V2.cross u v / (b * c)) ^ 2 := by
    rw [hx]; field_simp
    nlinarith [hL, hbc2]
  have hxlt : x ^ 2 < 1 := by
    have : 0 < (V2.cross u v / (b * c)) ^ 2 := by positivity
    linarith
  have hx1 : -1 < x := by nlinarith
  have hx2 : x < 1 := by nlinarith
  rw [C20.cotOf_arccos x hx1 hx2, h1x, Real.sqrt_sq (by positivity)]
  rw [hx]; field_simp

theorem normSq_sub_comm (a b : V2 ℝ) : V2.normSq (V2.sub a b) = V2.normSq (V2.sub b a) := by
  simp only [V2.normSq, V2.dot, V2.sub]; ring

/-- **The regenerated face angles of a planar triangle have the algebraic cotangents.**  For a
    positively oriented triangle `p q r` with side lengths `a = |q − r|`, `b = |r − p|`, `c = |q − p|`,
    the code's `calc_face_angles` body returns three angles whose cotangents (as the code computes a
    cotangent, `1 / tan`) are `cotAt p q r`, `cotAt q r p`, `cotAt r p q`. -/
theorem face_angles_cot (p q r : V2 ℝ) (h : 0 < V2.cross (V2.sub q p) (V2.sub r p)) :
    let ang := GenRs.face_angles (V2.norm (V2.sub q r)) (V2.norm (V2.sub r p)) (V2.norm (V2.sub q p))
    cotOf ang.1 = cotAt p q r ∧ cotOf ang.2.1 = cotAt q r p ∧ cotOf ang.2.2 = cotAt r p q := by
  intro ang
  have hq : 0 < V2.cross (V2.sub r q) (V2.sub p q) := by
    have : V2.cross (V2.sub r q) (V2.sub p q) = V2.cross (V2.sub q p) (V2.sub r p) := by
      simp only [V2.cross, V2.sub]; ring
    rw [this]; exact h
  have hr : 0 < V2.cross (V2.sub p r) (V2.sub q r) := by
    have : V2.cross (V2.sub p r) (V2.sub q r) = V2.cross (V2.sub q p) (V2.sub r p) := by
      simp only [V2.cross, V2.sub]; ring
    rw [this]; exact h
  obtain ⟨tp, bp, cp, kp⟩ := corner (V2.sub q p) (V2.sub r p) h
  obtain ⟨tq, bq, cq, kq⟩ := corner (V2.sub r q) (V2.sub p q) hq
  obtain ⟨tr, br, cr, kr⟩ := corner (V2.sub p r) (V2.sub q r) hr
  -- name the three side lengths
  have eA1 : V2.sub (V2.sub q p) (V2.sub r p) = V2.sub q r := by simp only [V2.sub, V2.mk.injEq]; constructor <;> ring
  have eA2 : V2.sub (V2.sub r q) (V2.sub p q) = V2.sub r p := by simp only [V2.sub, V2.mk.injEq]; constructor <;> ring
  have eA3 : V2.sub (V2.sub p r) (V2.sub q r) = V2.sub p q := by simp only [V2.sub, V2.mk.injEq]; constructor <;> ring
  rw [eA1] at tp kp
  rw [eA2] at tq kq
  rw [eA3] at tr kr
  rw [normSq_sub_comm r q, normSq_sub_comm p q] at tq kq
  rw [normSq_sub_comm p q, normSq_sub_comm p r] at tr kr
  set a := Real.sqrt (V2.normSq (V2.sub q r)) with ha
  set b := Real.sqrt (V2.normSq (V2.sub r p)) with hb
  set c := Real.sqrt (V2.normSq (V2.sub q p)) with hc
  have hang : ang = GenRs.face_angles a b c := rfl
  rw [hang, C20T.face_angles_eq]
  unfold faceAngles
  rw [if_neg (not_lt.mpr tp), if_neg (not_lt.mpr (by linarith)), if_neg (not_lt.mpr (by linarith))]
  refine ⟨?_, ?_, ?_⟩
  · show cotOf (Real.arccos _) = _
    rw [kp]; rfl
  · show cotOf (Real.arccos ((a * a + c * c - b * b) / (2 * a * c))) = _
    have e : (a * a + c * c - b * b) / (2 * a * c) = (c * c + a * a - b * b) / (2 * c * a) := by ring_nf
    rw [e, kq]; rfl
  · show cotOf (Real.arccos ((a * a + b * b - c * c) / (2 * a * b))) = _
    rw [kr]; rfl

/-- … hence the cotangents the code computes satisfy the per-triangle identity behind linear
    precision: the face's contribution at `p0` to the cotangent Laplacian of the planar layout is
    the quarter-turned opposite edge. -/
theorem regenerated_cot_triangle_identity (p0 p1 p2 : V2 ℝ)
    (h : 0 < V2.cross (V2.sub p1 p0) (V2.sub p2 p0)) :
    let ang := GenRs.face_angles (V2.norm (V2.sub p1 p2)) (V2.norm (V2.sub p2 p0)) (V2.norm (V2.sub p1 p0))
    V2.add (V2.smul (cotOf ang.2.2) (V2.sub p0 p1)) (V2.smul (cotOf ang.2.1) (V2.sub p0 p2)) =
      C20.J (V2.sub p2 p1) := by
  intro ang
  obtain ⟨_, h1, h2⟩ := face_angles_cot p0 p1 p2 h
  rw [h1, h2]
  exact C20.cot_triangle_identity p0 p1 p2 (ne_of_gt h)

/-- the hypotheses are satisfiable: the unit right triangle -/
example : 0 < V2.cross (V2.sub (⟨1, 0⟩ : V2 ℝ) ⟨0, 0⟩) (V2.sub (⟨0, 1⟩ : V2 ℝ) ⟨0, 0⟩) := by
  simp [V2.cross, V2.sub]

/-! ### the two rejection tests in front of the flattening (regenerated; the second pattern requires the pipeline to
start right after them) -/

/-- a mesh gets past both tests exactly when it has ONE boundary loop, Euler characteristic 1 and one connected piece —
    the model's `acceptsDisk` (Props/C20 `acceptsDisk_iff`), with `chi` standing for `V − E + F` (here as a natural
    number: `V + F = E + chi`) -/
theorem flatten_accepts_iff_disk (nLoops nPatches nVert nEdges nFaces chi : Nat) (hchi : nVert + nFaces = nEdges + chi) :
    (GenRs.flatten_reject_loops nLoops = false ∧ GenRs.flatten_reject_topology chi nPatches = false) ↔
      acceptsDisk nLoops nPatches nVert nEdges nFaces = true := by
  rw [C20.acceptsDisk_iff]
  unfold GenRs.flatten_reject_loops GenRs.flatten_reject_topology
  simp only [Bool.or_eq_false_iff, decide_eq_false_iff_not, not_not, ne_eq]
  constructor
  · rintro ⟨h1, h2, h3⟩; exact ⟨h1, h3, by omega⟩
  · rintro ⟨h1, h2, h3⟩; exact ⟨h1, by omega, h2⟩

/-! ### `Mesh::uv_with_tol`: a query given in another frame is moved into the mesh frame ONCE -/

/-- whatever transform the caller gives, the projection `uv_with_tol` delegates to (after it has moved the point
    itself — the translator's pattern requires that re-binding) is handed NO transform: the motion is not applied twice -/
theorem uv_with_tol_moves_the_query_once (t : Option ℝ) : GenRs.uv_delegated_transform t = none := rfl

/-! ### `invert_2x2` (the 2×2 solve inside `best_fit_curve`), from its regenerated determinant and entries.
The translator's pattern pins the singularity test to the EXACT comparison `det == 0.0`: with a tolerance in its
place the translation fails and the check reports it. -/

/-- the four entries the code writes, for a matrix with non-zero determinant, are the inverse: `M · R = 1` -/
theorem invert_2x2_is_inverse (a b c d : ℝ) (h : GenRs.inv2_det a b c d ≠ 0) :
    let k := GenRs.inv2_inv_det (GenRs.inv2_det a b c d)
    let (r00, r01, r10, r11) := (GenRs.inv2_r00 a b c d k, GenRs.inv2_r01 a b c d k, GenRs.inv2_r10 a b c d k, GenRs.inv2_r11 a b c d k)
    a * r00 + b * r10 = 1 ∧ a * r01 + b * r11 = 0 ∧ c * r00 + d * r10 = 0 ∧ c * r01 + d * r11 = 1 := by
  simp only [GenRs.inv2_det, GenRs.inv2_inv_det, GenRs.inv2_r00, GenRs.inv2_r01, GenRs.inv2_r10, GenRs.inv2_r11] at *
  have h' : a * d - b * c ≠ 0 := h
  refine ⟨?_, ?_, ?_, ?_⟩
  · field_simp; ring
  · field_simp; ring
  · field_simp; ring
  · have : c * (-b * (1 / (a * d - b * c))) + d * (a * (1 / (a * d - b * c))) = (a * d - b * c) * (1 / (a * d - b * c)) := by ring
    rw [this]; field_simp

/-- **Nothing in it depends on the size of the mesh.**  Scaling the matrix by any `s ≠ 0` (the entries are sums of
    squared edge lengths: a part a thousand times smaller scales them by 1e-6) scales the determinant by `s²` — never to
    zero — and the result by `1/s`. -/
theorem invert_2x2_scale (a b c d s : ℝ) (hs : s ≠ 0) (h : GenRs.inv2_det a b c d ≠ 0) :
    GenRs.inv2_det (s * a) (s * b) (s * c) (s * d) ≠ 0 ∧
    GenRs.inv2_r00 (s * a) (s * b) (s * c) (s * d) (GenRs.inv2_inv_det (GenRs.inv2_det (s * a) (s * b) (s * c) (s * d)))
      = GenRs.inv2_r00 a b c d (GenRs.inv2_inv_det (GenRs.inv2_det a b c d)) / s := by
  simp only [GenRs.inv2_det, GenRs.inv2_inv_det, GenRs.inv2_r00] at *
  have hd : s * a * (s * d) - s * b * (s * c) = s * s * (a * d - b * c) := by ring
  refine ⟨by rw [hd]; exact mul_ne_zero (mul_ne_zero hs hs) h, ?_⟩
  rw [hd]; field_simp

example : GenRs.inv2_det (2 : ℝ) 1 1 1 ≠ 0 := by norm_num [GenRs.inv2_det]

end C20U
