import Engeom.Props.C18
import Engeom.Props.C18T
/-
  C18 — the property theorems stated about the REGENERATED functions of src/common/angles.rs,
  src/common/interval.rs and src/geom2/angles2.rs (over ℝ).  Each is the theorem of Props/C18 about the model
  function, carried over by the equality of Props/C18T (which holds for every scalar type, by `rfl`).  A change
  of the Rust source changes the regenerated definitions; these statements are then re-checked against them.
-/
namespace C18U
open Real

theorem angle_signed_pi_range (x : ℝ) : -π ≤ GenRs.angle_signed_pi x ∧ GenRs.angle_signed_pi x ≤ π := by
  rw [C18T.angle_signed_pi_eq]; exact C18.signedPi_range x

theorem angle_signed_pi_congr (x : ℝ) : ∃ k : ℤ, GenRs.angle_signed_pi x = x + k * (2 * π) := by
  rw [C18T.angle_signed_pi_eq]; exact C18.signedPi_congr x

theorem angle_to_2pi_range (x : ℝ) : 0 ≤ GenRs.angle_to_2pi x ∧ GenRs.angle_to_2pi x < 2 * π := by
  rw [C18T.angle_to_2pi_eq]; exact C18.to2pi_range x

theorem angle_to_2pi_congr (x : ℝ) : ∃ k : ℤ, GenRs.angle_to_2pi x = x + k * (2 * π) := by
  rw [C18T.angle_to_2pi_eq]; exact C18.to2pi_congr x

theorem angle_in_direction_range (a b : ℝ) (d : AngleDir) :
    0 ≤ GenRs.angle_in_direction a b d ∧ GenRs.angle_in_direction a b d ≤ 2 * π := by
  rw [C18T.angle_in_direction_eq]; exact C18.inDirection_range a b d

/-- the two directions add up to one full turn — or both are zero -/
theorem angle_in_direction_cw_add_ccw (a b : ℝ) :
    GenRs.angle_in_direction a b .cw + GenRs.angle_in_direction a b .ccw = 2 * π ∨
    (GenRs.angle_in_direction a b .cw = 0 ∧ GenRs.angle_in_direction a b .ccw = 0) := by
  rw [C18T.angle_in_direction_eq, C18T.angle_in_direction_eq]; exact C18.inDirection_cw_add_ccw a b

theorem directed_angle_range (v w : V2 ℝ) (d : AngleDir) :
    0 ≤ GenRs.directed_angle v w d ∧ GenRs.directed_angle v w d ≤ 2 * π := by
  rw [C18T.directed_angle_eq]; exact C18.directed_range v w d

theorem directed_angle_cw_add_ccw (v w : V2 ℝ) :
    GenRs.directed_angle v w .cw + GenRs.directed_angle v w .ccw = 2 * π ∨
    (GenRs.directed_angle v w .cw = 0 ∧ GenRs.directed_angle v w .ccw = 0) := by
  rw [C18T.directed_angle_eq, C18T.directed_angle_eq]; exact C18.directed_cw_add_ccw v w

/-- every constructed angular interval is canonical (start in [0, 2π), extent in [0, 2π]) -/
theorem angle_interval_new_canonical (s e : ℝ) : C18.Canonical (GenRs.AngleInterval_new s e) := by
  rw [C18T.AngleInterval_new_eq]; exact C18.new_canonical s e

/-- membership is sound (within the angular tolerance) and complete for the swept set -/
theorem angle_interval_contains_sound (I : AngleInterval ℝ) (hI : C18.Canonical I) (a : ℝ)
    (h : GenRs.AngleInterval_contains I a = true) : C18.SweptTol I a := by
  rw [C18T.AngleInterval_contains_eq] at h; exact C18.contains_sound I hI a h

theorem angle_interval_contains_complete (I : AngleInterval ℝ) (hI : C18.Canonical I) (a : ℝ) (h : C18.Swept I a) :
    GenRs.AngleInterval_contains I a = true := by
  rw [C18T.AngleInterval_contains_eq]; exact C18.contains_complete I hI a h

/-- two closed scalar intervals overlap exactly when they share a point (touching intervals do) -/
theorem interval_overlaps_iff (I J : Interval ℝ) (hI : I.min ≤ I.max) (hJ : J.min ≤ J.max) :
    GenRs.Interval_overlaps I J = true ↔ ∃ x, (I.min ≤ x ∧ x ≤ I.max) ∧ (J.min ≤ x ∧ x ≤ J.max) := by
  rw [C18T.Interval_overlaps_eq]; exact C18.interval_overlaps_iff I J hI hJ
end C18U
