import Engeom.Props.C06
/-
  C06 (continued) — completeness of the bounding-volume traversal written in polyline2.rs.

  Assumption (parry's QBVH invariant, stated as `Boxed`): the box attached to a child contains both
  end points of every edge stored below that child.  Under it the traversal with the engeom-written
  pruning test collects every edge the line crosses, hence `polyline_intersections` reports, before
  sorting and merging, exactly the hits of the per-edge specification.
-/
namespace C06

def InBox (mn mx p : V2 ℝ) : Prop := mn.x ≤ p.x ∧ p.x ≤ mx.x ∧ mn.y ≤ p.y ∧ p.y ≤ mx.y

/-- both ends of edge `i` lie in the box -/
def EdgeInBox (verts : List (V2 ℝ)) (mn mx : V2 ℝ) (i : Nat) : Prop :=
  InBox mn mx (verts.getD i ⟨0, 0⟩) ∧ InBox mn mx (verts.getD (i + 1) ⟨0, 0⟩)

mutual
def BoxedT (verts : List (V2 ℝ)) : BvhTree ℝ → Prop
  | .leaf _ => True
  | .node cs => BoxedF verts cs
def BoxedF (verts : List (V2 ℝ)) : BvhForest ℝ → Prop
  | .nil => True
  | .cons mn mx t r => (∀ i ∈ t.leaves, EdgeInBox verts mn mx i) ∧ BoxedT verts t ∧ BoxedF verts r
end

theorem inBoxB_iff (mn mx p : V2 ℝ) : inBoxB mn mx p = true ↔ InBox mn mx p := by
  simp [inBoxB, InBox, and_assoc]

mutual
/-- the computable test evaluated on the real tree decides the assumed invariant -/
theorem boxedB_T (verts : List (V2 ℝ)) : ∀ t : BvhTree ℝ, t.boxedB verts = true → BoxedT verts t
  | .leaf _, _ => by simp [BoxedT]
  | .node cs, h => by
    simp only [BvhTree.boxedB] at h
    simpa [BoxedT] using boxedB_F verts cs h
theorem boxedB_F (verts : List (V2 ℝ)) : ∀ f : BvhForest ℝ, f.boxedB verts = true → BoxedF verts f
  | .nil, _ => by simp [BoxedF]
  | .cons mn mx t r, h => by
    simp only [BvhForest.boxedB, Bool.and_eq_true, List.all_eq_true] at h
    obtain ⟨⟨h1, h2⟩, h3⟩ := h
    simp only [BoxedF]
    refine ⟨?_, boxedB_T verts t h2, boxedB_F verts r h3⟩
    intro i hi
    have := h1 i hi
    exact ⟨(inBoxB_iff _ _ _).mp this.1, (inBoxB_iff _ _ _).mp this.2⟩
end

/-- a box that contains both ends of an edge contains every point of the edge -/
theorem inBox_convex (mn mx a b : V2 ℝ) (s : ℝ) (h0 : 0 ≤ s) (h1 : s ≤ 1)
    (ha : InBox mn mx a) (hb : InBox mn mx b) : InBox mn mx (V2.add a (V2.smul s (V2.sub b a))) := by
  obtain ⟨a1, a2, a3, a4⟩ := ha
  obtain ⟨b1, b2, b3, b4⟩ := hb
  simp only [InBox, V2.add, V2.smul, V2.sub]
  refine ⟨?_, ?_, ?_, ?_⟩ <;> nlinarith

/-- the pruning test keeps every box that contains both ends of an edge the line crosses -/
theorem test_keeps_box_of_hit (big : ℝ) (verts : List (V2 ℝ)) (o d mn mx : V2 ℝ) (i : Nat) (t : ℝ)
    (hb : EdgeInBox verts mn mx i)
    (hh : rayEdge o d (verts.getD i ⟨0, 0⟩) (verts.getD (i + 1) ⟨0, 0⟩) = some t) (ht : |t| ≤ big) :
    castRaySlab big mn mx o d = true := by
  obtain ⟨s, h0, h1, hp⟩ := rayEdge_on_edge _ _ _ _ _ hh
  have hin := inBox_convex mn mx _ _ s h0 h1 hb.1 hb.2
  rw [← hp] at hin
  simp only [InBox, V2.add, V2.smul] at hin
  exact slab_complete big mn mx o d t ht ⟨hin.1, hin.2.1⟩ ⟨hin.2.2.1, hin.2.2.2⟩

mutual
/-- No crossed edge is lost by the traversal. -/
theorem visitT_complete (big : ℝ) (verts : List (V2 ℝ)) (o d : V2 ℝ) (i : Nat) (t : ℝ)
    (hh : rayEdge o d (verts.getD i ⟨0, 0⟩) (verts.getD (i + 1) ⟨0, 0⟩) = some t) (ht : |t| ≤ big) :
    ∀ tree : BvhTree ℝ, BoxedT verts tree → i ∈ tree.leaves →
      i ∈ tree.visit (fun mn mx => castRaySlab big mn mx o d)
  | .leaf j, _, hi => by simpa [BvhTree.leaves, BvhTree.visit] using hi
  | .node cs, hb, hi => by
    simp only [BvhTree.leaves, BvhTree.visit] at hi ⊢
    exact visitF_complete big verts o d i t hh ht cs (by simpa [BoxedT] using hb) hi
theorem visitF_complete (big : ℝ) (verts : List (V2 ℝ)) (o d : V2 ℝ) (i : Nat) (t : ℝ)
    (hh : rayEdge o d (verts.getD i ⟨0, 0⟩) (verts.getD (i + 1) ⟨0, 0⟩) = some t) (ht : |t| ≤ big) :
    ∀ f : BvhForest ℝ, BoxedF verts f → i ∈ f.leaves →
      i ∈ f.visit (fun mn mx => castRaySlab big mn mx o d)
  | .nil, _, hi => by simp [BvhForest.leaves] at hi
  | .cons mn mx c r, hb, hi => by
    simp only [BoxedF] at hb
    obtain ⟨hbox, hc, hr⟩ := hb
    simp only [BvhForest.leaves, List.mem_append] at hi
    have hk : i ∈ c.leaves → castRaySlab big mn mx o d = true := fun h =>
      test_keeps_box_of_hit big verts o d mn mx i t (hbox i h) hh ht
    cases c with
    | leaf j =>
      simp only [BvhForest.visit, List.mem_append]
      rcases hi with hi | hi
      · left
        rw [if_pos (hk hi)]
        simpa [BvhTree.leaves] using hi
      · right; exact visitF_complete big verts o d i t hh ht r hr hi
    | node cs =>
      simp only [BvhForest.visit, List.mem_append]
      rcases hi with hi | hi
      · right
        rw [if_pos (hk hi)]
        have := visitT_complete big verts o d i t hh ht (.node cs) hc hi
        simpa [BvhTree.visit] using this
      · left; exact visitF_complete big verts o d i t hh ht r hr hi
end

mutual
/-- The traversal visits leaves only (it invents no candidate). -/
theorem visitT_sub (test : V2 ℝ → V2 ℝ → Bool) : ∀ tree : BvhTree ℝ, ∀ i ∈ tree.visit test, i ∈ tree.leaves
  | .leaf j, i, hi => by simpa [BvhTree.leaves, BvhTree.visit] using hi
  | .node cs, i, hi => by
    simp only [BvhTree.leaves, BvhTree.visit] at hi ⊢
    exact visitF_sub test cs i hi
theorem visitF_sub (test : V2 ℝ → V2 ℝ → Bool) : ∀ f : BvhForest ℝ, ∀ i ∈ f.visit test, i ∈ f.leaves
  | .nil, i, hi => by simp [BvhForest.visit] at hi
  | .cons mn mx c r, i, hi => by
    simp only [BvhForest.leaves, List.mem_append]
    cases c with
    | leaf j =>
      simp only [BvhForest.visit, List.mem_append] at hi
      rcases hi with hi | hi
      · left
        split_ifs at hi with h
        · simpa [BvhTree.leaves] using hi
        · simp at hi
      · right; exact visitF_sub test r i hi
    | node cs =>
      simp only [BvhForest.visit, List.mem_append] at hi
      rcases hi with hi | hi
      · right; exact visitF_sub test r i hi
      · left
        split_ifs at hi with h
        · simpa [BvhTree.leaves] using visitF_sub test cs i hi
        · simp at hi
end

theorem edgeHit_some (verts : List (V2 ℝ)) (o d : V2 ℝ) (j i : Nat) (t : ℝ) :
    edgeHit verts o d j = some (t, i) ↔
      (j = i ∧ rayEdge o d (verts.getD j ⟨0, 0⟩) (verts.getD (j + 1) ⟨0, 0⟩) = some t) := by
  unfold edgeHit
  generalize rayEdge o d (verts.getD j ⟨0, 0⟩) (verts.getD (j + 1) ⟨0, 0⟩) = r
  cases r with
  | none => simp
  | some s => simp only [Option.some.injEq, Prod.mk.injEq]; exact and_comm

/-- `polyline_intersections` (before sorting and merging) reports exactly the hits of the per-edge
    specification, for every tree over the edges of the polyline that satisfies the box invariant:
    every reported pair is a genuine hit on the named edge, and no hit is missed. -/
theorem traversalHits_iff (big : ℝ) (verts : List (V2 ℝ)) (o d : V2 ℝ) (tree : BvhTree ℝ)
    (hb : BoxedT verts tree) (t : ℝ) (i : Nat) (hi : i ∈ tree.leaves) (ht : |t| ≤ big) :
    (t, i) ∈ traversalHits big verts o d tree ↔
      rayEdge o d (verts.getD i ⟨0, 0⟩) (verts.getD (i + 1) ⟨0, 0⟩) = some t := by
  unfold traversalHits
  rw [List.mem_filterMap]
  constructor
  · rintro ⟨j, _, hj⟩
    obtain ⟨rfl, hr⟩ := (edgeHit_some verts o d j i t).mp hj
    exact hr
  · intro hh
    exact ⟨i, visitT_complete big verts o d i t hh ht tree hb hi, (edgeHit_some verts o d i i t).mpr ⟨rfl, hh⟩⟩

/-- sorting and merging keep only reported hits: every final answer is a genuine hit -/
theorem dedupByT_sub (tol : ℝ) (l : List (ℝ × Nat)) : ∀ x ∈ dedupByT tol l, x ∈ l := by
  have hgo : ∀ (r : List (ℝ × Nat)) (last : ℝ × Nat), ∀ x ∈ dedupByT.go tol last r, x ∈ r := by
    intro r
    induction r with
    | nil => intro last x hx; simp [dedupByT.go] at hx
    | cons b r ih =>
      intro last x hx
      unfold dedupByT.go at hx
      split_ifs at hx
      · exact List.mem_cons_of_mem _ (ih last x hx)
      · rcases List.mem_cons.mp hx with rfl | hx
        · exact List.mem_cons_self
        · exact List.mem_cons_of_mem _ (ih b x hx)
  intro x hx
  cases l with
  | nil => simp [dedupByT] at hx
  | cons a r =>
    unfold dedupByT at hx
    rcases List.mem_cons.mp hx with rfl | hx
    · exact List.mem_cons_self
    · exact List.mem_cons_of_mem _ (hgo r a x hx)

theorem polylineIntersections_sound (big : ℝ) (verts : List (V2 ℝ)) (o d : V2 ℝ) (tree : BvhTree ℝ)
    (t : ℝ) (i : Nat) (h : (t, i) ∈ polylineIntersections big verts o d tree) :
    rayEdge o d (verts.getD i ⟨0, 0⟩) (verts.getD (i + 1) ⟨0, 0⟩) = some t := by
  unfold polylineIntersections at h
  have h1 := dedupByT_sub _ _ _ h
  have h2 := (sortByT_perm _).mem_iff.mp h1
  unfold traversalHits at h2
  rw [List.mem_filterMap] at h2
  obtain ⟨j, _, hj⟩ := h2
  obtain ⟨rfl, hr⟩ := (edgeHit_some verts o d j i t).mp hj
  exact hr

/-! non-vacuity: a two-edge polyline under one root with two boxed leaves; the vertical line x = 1/2
    crosses edge 0 only, the traversal keeps edge 0 -/
example : BoxedT [⟨0, 0⟩, ⟨1, 0⟩, ⟨1, 1⟩]
    (.node (.cons ⟨0, 0⟩ ⟨1, 0⟩ (.leaf 0) (.cons ⟨1, 0⟩ ⟨1, 1⟩ (.leaf 1) .nil))) := by
  simp [BoxedT, BoxedF, BvhTree.leaves, EdgeInBox, InBox]

end C06
