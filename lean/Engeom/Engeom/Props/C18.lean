import Engeom.Model.Angles
theorem C18_placeholder : True := trivial
