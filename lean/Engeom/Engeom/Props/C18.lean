import Engeom.Model.Angles
import Engeom.Lemmas.RealScalar
import Mathlib.Tactic.Linarith
import Mathlib.Tactic.IntervalCases
/-
  C18 — Angle normalisation and interval arithmetic are consistent.
  Property theorems only (helper lemmas about fmod are in Lemmas/RealScalar.lean).
  All statements are about the model in Engeom/Model/Angles.lean instantiated at ℝ (angles) or at an
  arbitrary linearly ordered field (scalar intervals).
-/

open Real

namespace C18

theorem scalar_pi : (Scalar.pi : ℝ) = π := rfl
theorem twoPi_eq : (twoPi : ℝ) = 2 * π := rfl
theorem twoPi_pos : (0 : ℝ) < twoPi := by rw [twoPi_eq]; positivity

/-! ### obligations on the regenerated constant -/

/-- `ANGLE_TOL` (regenerated from angles.rs) is a small non-negative number. -/
theorem angleTol_bounds : (0 : ℝ) ≤ angleTol ∧ (angleTol : ℝ) ≤ 1 / 10 ^ 9 := by
  unfold angleTol
  rw [ofRatR]
  norm_num [Gen.ANGLE_TOL_num, Gen.ANGLE_TOL_den]

/-! ### normalisation -/

/-- `angle_signed_pi` lands in the documented closed range [-π, π]. -/
theorem signedPi_range (x : ℝ) : -π ≤ angleSignedPi x ∧ angleSignedPi x ≤ π := by
  have h := fmodR_abs_lt (x := x) twoPi_pos
  have e1 := scalar_pi
  have e2 := twoPi_eq
  have hp := Real.pi_pos
  unfold angleSignedPi
  dsimp only
  split_ifs <;> constructor <;> linarith

/-- …and denotes the same direction: it differs from the input by a whole number of turns. -/
theorem signedPi_congr (x : ℝ) : ∃ k : ℤ, angleSignedPi x = x + k * (2 * π) := by
  obtain ⟨k, hk⟩ := fmodR_congr x (twoPi : ℝ)
  have e2 := twoPi_eq
  unfold angleSignedPi
  dsimp only
  split_ifs
  · exact ⟨-k - 1, by push_cast; rw [← e2]; linear_combination hk⟩
  · exact ⟨-k + 1, by push_cast; rw [← e2]; linear_combination hk⟩
  · exact ⟨-k, by push_cast; rw [← e2]; linear_combination hk⟩

/-- `angle_to_2pi` lands in [0, 2π) (in exact arithmetic; the float code can round up to 2π). -/
theorem to2pi_range (x : ℝ) : 0 ≤ angleTo2pi x ∧ angleTo2pi x < 2 * π := by
  have h := fmodR_abs_lt (x := x) twoPi_pos
  have e2 := twoPi_eq
  unfold angleTo2pi
  dsimp only
  split_ifs <;> constructor <;> linarith

theorem to2pi_congr (x : ℝ) : ∃ k : ℤ, angleTo2pi x = x + k * (2 * π) := by
  obtain ⟨k, hk⟩ := fmodR_congr x (twoPi : ℝ)
  have e2 := twoPi_eq
  unfold angleTo2pi
  dsimp only
  split_ifs
  · exact ⟨-k + 1, by push_cast; rw [← e2]; linear_combination hk⟩
  · exact ⟨-k, by push_cast; rw [← e2]; linear_combination hk⟩

/-- An angle already in [0, 2π) is returned unchanged. -/
theorem to2pi_id {x : ℝ} (h0 : 0 ≤ x) (h1 : x < 2 * π) : angleTo2pi x = x := by
  have hp := Real.pi_pos
  have hq0 : 0 ≤ x / (2 * π) := by positivity
  have hq1 : x / (2 * π) < 1 := by rw [div_lt_one (by positivity)]; exact h1
  have hfl : ⌊x / (2 * π)⌋ = 0 := Int.floor_eq_zero_iff.mpr ⟨hq0, hq1⟩
  have hf : Scalar.fmod x (twoPi : ℝ) = x := by
    rw [fmodR_def, twoPi_eq, Real.truncR, if_pos hq0, hfl]; simp
  unfold angleTo2pi
  dsimp only
  rw [hf, if_neg (not_lt.mpr h0)]

/-! ### directed angle between two angles -/

theorem inDirection_range (a b : ℝ) (d : AngleDir) :
    0 ≤ angleInDirection a b d ∧ angleInDirection a b d ≤ 2 * π := by
  have ha := signedPi_range a
  have hb := signedPi_range b
  have e2 := twoPi_eq
  have hp := Real.pi_pos
  unfold angleInDirection
  cases d <;> dsimp only <;> split_ifs <;> constructor <;> linarith

/-- Rotating the first angle by the result, in the stated direction, gives the second (mod 2π). -/
theorem inDirection_rotates (a b : ℝ) (d : AngleDir) :
    ∃ k : ℤ, a + (match d with | .ccw => 1 | .cw => -1) * angleInDirection a b d = b + k * (2 * π) := by
  obtain ⟨ka, hka⟩ := signedPi_congr a
  obtain ⟨kb, hkb⟩ := signedPi_congr b
  have e2 := twoPi_eq
  unfold angleInDirection
  cases d <;> dsimp only <;> split_ifs
  · exact ⟨kb - ka - 1, by push_cast; (try rw [e2]); linear_combination hkb - hka⟩
  · exact ⟨kb - ka, by push_cast; linear_combination hkb - hka⟩
  · exact ⟨kb - ka + 1, by push_cast; (try rw [e2]); linear_combination hkb - hka⟩
  · exact ⟨kb - ka, by push_cast; linear_combination hkb - hka⟩

/-- The clockwise and counter-clockwise directed angles sum to a full turn or are both zero. -/
theorem inDirection_cw_add_ccw (a b : ℝ) :
    angleInDirection a b .cw + angleInDirection a b .ccw = 2 * π ∨
    (angleInDirection a b .cw = 0 ∧ angleInDirection a b .ccw = 0) := by
  have e2 := twoPi_eq
  unfold angleInDirection
  dsimp only
  rcases lt_trichotomy (angleSignedPi a) (angleSignedPi b) with h | h | h
  · left; rw [if_pos h, if_neg (not_lt.mpr h.le), e2]; ring
  · right; rw [h]; simp
  · left; rw [if_neg (not_lt.mpr h.le), if_pos h, e2]; ring

/-! ### angular intervals -/

/-- The exact set swept from `start` through `angle`. -/
def Swept (I : AngleInterval ℝ) (a : ℝ) : Prop :=
  ∃ k : ℤ, I.start ≤ a + k * (2 * π) ∧ a + k * (2 * π) ≤ I.start + I.angle

/-- The same set widened by `ANGLE_TOL` at both ends. -/
def SweptTol (I : AngleInterval ℝ) (a : ℝ) : Prop :=
  ∃ k : ℤ, I.start - angleTol ≤ a + k * (2 * π) ∧ a + k * (2 * π) ≤ I.start + I.angle + angleTol

def Canonical (I : AngleInterval ℝ) : Prop :=
  0 ≤ I.start ∧ I.start < 2 * π ∧ 0 ≤ I.angle ∧ I.angle ≤ 2 * π

theorem new_canonical (s e : ℝ) : Canonical (AngleInterval.new s e) := by
  have hp := Real.pi_pos
  have e2 := twoPi_eq
  unfold AngleInterval.new Canonical
  split_ifs with h
  · have := to2pi_range (s + e)
    refine ⟨this.1, this.2, ?_, ?_⟩
    · unfold smin sabs; dsimp only; rw [if_pos h]; split_ifs <;> linarith
    · unfold smin sabs; dsimp only; rw [if_pos h]; split_ifs <;> linarith
  · have := to2pi_range s
    have h' := not_lt.mp h
    refine ⟨this.1, this.2, ?_, ?_⟩
    · unfold smin; dsimp only; split_ifs <;> linarith
    · unfold smin; dsimp only; split_ifs <;> linarith

/-- A negative extent means the same set swept backwards. -/
theorem new_negative_extent (s e : ℝ) (he : e < 0) :
    AngleInterval.new s e = AngleInterval.new (s + e) (-e) := by
  unfold AngleInterval.new
  rw [if_pos he, if_neg (by linarith)]
  simp [sabs, he]

/-- Soundness: whatever `contains` accepts lies in the swept set widened by the tolerance. -/
theorem contains_sound (I : AngleInterval ℝ) (hI : Canonical I) (a : ℝ) (h : I.contains a = true) :
    SweptTol I a := by
  obtain ⟨k, hk⟩ := to2pi_congr a
  have e2 := twoPi_eq
  unfold AngleInterval.contains at h
  dsimp only at h
  split_ifs at h with h1
  · have h2 := of_decide_eq_true h
    exact ⟨k, by rw [← hk]; exact h1, by rw [← hk]; exact h2⟩
  · have h2 := of_decide_eq_true h
    have ht := angleTol_bounds.1
    refine ⟨k + 1, ?_, ?_⟩
    · push_cast; have := (to2pi_range a).1; have := hI.2.1; linarith
    · push_cast; linarith

/-- Completeness: every angle of the exact swept set of a canonical interval is accepted. -/
theorem contains_complete (I : AngleInterval ℝ) (hI : Canonical I) (a : ℝ) (h : Swept I a) :
    I.contains a = true := by
  obtain ⟨k, hk⟩ := to2pi_congr a
  obtain ⟨m, hm1, hm2⟩ := h
  obtain ⟨c0, c1, c2, c3⟩ := hI
  have hr := to2pi_range a
  have ht := angleTol_bounds.1
  have hp := Real.pi_pos
  -- express the witness relative to the normalised angle: a + m·2π = a' + j·2π
  set a' := angleTo2pi a with ha'
  have hj : a + m * (2 * π) = a' + ((m - k : ℤ) : ℝ) * (2 * π) := by rw [hk]; push_cast; ring
  rw [hj] at hm1 hm2
  set j : ℤ := m - k
  have j0 : (-1 : ℝ) < j := by nlinarith
  have j2 : (j : ℝ) < 2 := by nlinarith
  have j0' : -1 < j := by exact_mod_cast j0
  have j2' : j < 2 := by exact_mod_cast j2
  have e2 := twoPi_eq
  unfold AngleInterval.contains
  dsimp only
  rw [← ha']
  interval_cases j
  · simp only [Int.cast_zero, zero_mul, add_zero] at hm1 hm2
    rw [if_pos (by linarith)]
    exact decide_eq_true (by linarith)
  · simp only [Int.cast_one, one_mul] at hm1 hm2
    split_ifs
    · exact decide_eq_true (by linarith)
    · exact decide_eq_true (by linarith)

/-- Two canonical intervals whose exact swept sets share an angle are reported as intersecting. -/
theorem intersects_of_share (I J : AngleInterval ℝ) (hI : Canonical I) (hJ : Canonical J)
    (a : ℝ) (hIa : Swept I a) (hJa : Swept J a) : I.intersects J = true := by
  obtain ⟨k, hk1, hk2⟩ := hIa
  obtain ⟨m, hm1, hm2⟩ := hJa
  unfold AngleInterval.intersects
  rcases le_or_gt I.start (J.start + ((k - m : ℤ) : ℝ) * (2 * π)) with h | h
  · have : I.contains J.start = true :=
      contains_complete I hI J.start ⟨k - m, h, by push_cast at *; linarith⟩
    simp [this]
  · have : J.contains I.start = true :=
      contains_complete J hJ I.start ⟨m - k, by push_cast at *; linarith, by push_cast at *; linarith⟩
    simp [this]

/-- If two intervals are reported as intersecting, their tolerance-widened sets share an angle. -/
theorem share_of_intersects (I J : AngleInterval ℝ) (hI : Canonical I) (hJ : Canonical J)
    (h : I.intersects J = true) : ∃ a, SweptTol I a ∧ SweptTol J a := by
  have ht := angleTol_bounds.1
  unfold AngleInterval.intersects at h
  rcases Bool.or_eq_true_iff.mp h with h | h
  · exact ⟨J.start, contains_sound I hI _ h, ⟨0, by simp; linarith, by simp; linarith [hJ.2.2.1]⟩⟩
  · exact ⟨I.start, ⟨0, by simp; linarith, by simp; linarith [hI.2.2.1]⟩, contains_sound J hJ _ h⟩

/-! ### directed angle between two vectors -/

theorem signedAngle_range (v w : V2 ℝ) : -π < signedAngle v w ∧ signedAngle v w ≤ π := by
  unfold signedAngle
  exact Complex.arg_mem_Ioc _

theorem directed_range (v w : V2 ℝ) (d : AngleDir) :
    0 ≤ directedAngle v w d ∧ directedAngle v w d ≤ 2 * π := by
  have h := signedAngle_range v w
  have hp := Real.pi_pos
  have e2 := twoPi_eq
  unfold directedAngle
  cases d <;> dsimp only <;> split_ifs <;> constructor <;> linarith

theorem directed_cw_add_ccw (v w : V2 ℝ) :
    directedAngle v w .cw + directedAngle v w .ccw = 2 * π ∨
    (directedAngle v w .cw = 0 ∧ directedAngle v w .ccw = 0) := by
  have e2 := twoPi_eq
  unfold directedAngle
  dsimp only
  rcases lt_trichotomy (signedAngle v w) 0 with h | h | h
  · left; rw [if_neg (by linarith), if_pos (by linarith), e2]; ring
  · right; rw [h]; simp
  · left; rw [if_pos (by linarith), if_neg (by linarith), e2]; ring

/-! ### scalar intervals — for every linearly ordered field -/

section
variable {F : Type} [Field F] [LinearOrder F] [IsStrictOrderedRing F]

theorem interval_new_ordered (a b : F) :
    (Interval.new a b).min ≤ (Interval.new a b).max ∧
    (Interval.new a b).min = min a b ∧ (Interval.new a b).max = max a b := by
  unfold Interval.new smin smax
  rcases le_total a b with h | h
  · simp [h]
  · rcases eq_or_lt_of_le h with h' | h'
    · subst h'; simp
    · simp [not_le.mpr h', h]

theorem interval_contains_iff (I : Interval F) (x : F) :
    I.contains x = true ↔ I.min ≤ x ∧ x ≤ I.max := by
  unfold Interval.contains; simp

/-- overlaps ⇔ the two closed sets share a point (for well-formed intervals). -/
theorem interval_overlaps_iff (I J : Interval F) (hI : I.min ≤ I.max) (hJ : J.min ≤ J.max) :
    I.overlaps J = true ↔ ∃ x, (I.min ≤ x ∧ x ≤ I.max) ∧ (J.min ≤ x ∧ x ≤ J.max) := by
  unfold Interval.overlaps
  simp only [Bool.or_eq_true, interval_contains_iff]
  constructor
  · rintro (h | h)
    · exact ⟨J.min, h, le_refl _, hJ⟩
    · exact ⟨I.min, ⟨le_refl _, hI⟩, h⟩
  · rintro ⟨x, ⟨h1, h2⟩, h3, h4⟩
    rcases le_total I.min J.min with h | h
    · left; exact ⟨h, h3.trans h2⟩
    · right; exact ⟨h, h1.trans h4⟩

theorem interval_intersection_comm (I J : Interval F) :
    (I.intersection J).map (fun K => (K.min, K.max)) = (J.intersection I).map (fun K => (K.min, K.max)) := by
  unfold Interval.intersection
  have ho : I.overlaps J = J.overlaps I := by unfold Interval.overlaps; exact Bool.or_comm _ _
  rw [ho]
  split_ifs
  · simp only [Option.map_some, Option.some.injEq, Prod.mk.injEq]
    have e1 : smax I.min J.min = max I.min J.min := by
      unfold smax; rcases le_total I.min J.min with h | h
      · simp [h]
      · rcases eq_or_lt_of_le h with h' | h'
        · simp [h']
        · simp [not_le.mpr h', h]
    have e2 : smax J.min I.min = max J.min I.min := by
      unfold smax; rcases le_total J.min I.min with h | h
      · simp [h]
      · rcases eq_or_lt_of_le h with h' | h'
        · simp [h']
        · simp [not_le.mpr h', h]
    have e3 : smin I.max J.max = min I.max J.max := by
      unfold smin; rcases le_total I.max J.max with h | h
      · simp [h]
      · rcases eq_or_lt_of_le h with h' | h'
        · simp [h']
        · simp [not_le.mpr h', h]
    have e4 : smin J.max I.max = min J.max I.max := by
      unfold smin; rcases le_total J.max I.max with h | h
      · simp [h]
      · rcases eq_or_lt_of_le h with h' | h'
        · simp [h']
        · simp [not_le.mpr h', h]
    rw [e1, e2, e3, e4, max_comm, min_comm]
    obtain ⟨_, h1, h2⟩ := interval_new_ordered (max J.min I.min) (min J.max I.max)
    exact ⟨rfl, rfl⟩
  · rfl

/-- The intersection is exactly the set of common points (so it is contained in both operands). -/
theorem interval_intersection_spec (I J K : Interval F) (hI : I.min ≤ I.max) (hJ : J.min ≤ J.max)
    (h : I.intersection J = some K) (x : F) :
    (K.min ≤ x ∧ x ≤ K.max) ↔ ((I.min ≤ x ∧ x ≤ I.max) ∧ (J.min ≤ x ∧ x ≤ J.max)) := by
  unfold Interval.intersection at h
  split_ifs at h with ho
  obtain ⟨y, ⟨y1, y2⟩, y3, y4⟩ := (interval_overlaps_iff I J hI hJ).mp ho
  have hK : K = Interval.new (smax I.min J.min) (smin I.max J.max) := (Option.some.inj h).symm
  have e1 : smax I.min J.min = max I.min J.min := by
    unfold smax; rcases le_total I.min J.min with h | h
    · simp [h]
    · rcases eq_or_lt_of_le h with h' | h'
      · simp [h']
      · simp [not_le.mpr h', h]
  have e3 : smin I.max J.max = min I.max J.max := by
    unfold smin; rcases le_total I.max J.max with h | h
    · simp [h]
    · rcases eq_or_lt_of_le h with h' | h'
      · simp [h']
      · simp [not_le.mpr h', h]
  obtain ⟨_, k1, k2⟩ := interval_new_ordered (max I.min J.min) (min I.max J.max)
  have hle : max I.min J.min ≤ min I.max J.max :=
    le_min (max_le y1 y3 |>.trans (le_refl _) |> fun h => (max_le y1 y3).trans y2) ((max_le y1 y3).trans y4)
  rw [hK, e1, e3, k1, k2, min_eq_left hle, max_eq_right hle]
  simp only [max_le_iff, le_min_iff]
  tauto

theorem interval_clamp_mem (I : Interval F) (hI : I.min ≤ I.max) (x : F) :
    I.min ≤ I.clamp x ∧ I.clamp x ≤ I.max := by
  unfold Interval.clamp smax smin
  split_ifs <;> constructor <;> order

theorem interval_clamp_of_mem (I : Interval F) (x : F) (h1 : I.min ≤ x) (h2 : x ≤ I.max) :
    I.clamp x = x := by
  unfold Interval.clamp smax smin
  split_ifs <;> order

theorem interval_clamp_idem (I : Interval F) (hI : I.min ≤ I.max) (x : F) :
    I.clamp (I.clamp x) = I.clamp x :=
  interval_clamp_of_mem I _ (interval_clamp_mem I hI x).1 (interval_clamp_mem I hI x).2

end

/-! ### non-vacuity: concrete inputs satisfying the hypotheses -/

example : Canonical (⟨1, 2⟩ : AngleInterval ℝ) := by
  have := Real.two_le_pi
  refine ⟨?_, ?_, ?_, ?_⟩ <;> dsimp only <;> linarith
example : Swept (⟨1, 2⟩ : AngleInterval ℝ) 2 := ⟨0, by norm_num, by norm_num⟩
example : ((Interval.new (3 : ℚ) 1).min, (Interval.new (3 : ℚ) 1).max) = (1, 3) := by
  simp [Interval.new, smin, smax]

end C18
