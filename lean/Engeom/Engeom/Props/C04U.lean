import Engeom.Props.C04
import Engeom.Props.C04T
/-
  C04 — stated about the REGENERATED `between_lengths_by_control`, `trim_front`, `trim_back`
  (src/geom2/curve2.rs, over ℝ): which piece the control length selects, and that an ill-posed request yields
  nothing.  Theorems of Props/C04 about the model, carried over by the equalities of Props/C04T.
-/
namespace C04U
variable [Inhabited (V2 ℝ)] [Inhabited (V3 ℝ)]

/-- a control length beyond the curve: nothing -/
theorem by_control_beyond_length (c : Curve ℝ (V2 ℝ)) (a b ctl : ℝ) (h : c.length < ctl) :
    GenRs.between_lengths_by_control c a b ctl = none := by
  rw [C04T.between_by_control_eq]; exact C04.byControl_beyond_length c a b ctl h

/-- control strictly between the two lengths: the forward piece -/
theorem by_control_inside (c : Curve ℝ (V2 ℝ)) (a b ctl : ℝ) (h0 : ctl ≤ c.length)
    (h1 : smin a b < ctl) (h2 : ctl < smax a b) :
    GenRs.between_lengths_by_control c a b ctl = c.between (smin a b) (smax a b) := by
  rw [C04T.between_by_control_eq]; exact C04.byControl_inside c a b ctl h0 h1 h2

/-- control outside them (on a closed curve also above): the piece through the seam -/
theorem by_control_outside (c : Curve ℝ (V2 ℝ)) (a b ctl : ℝ) (h0 : ctl ≤ c.length)
    (h : ctl < smin a b ∨ (smax a b < ctl ∧ c.closed = true)) :
    GenRs.between_lengths_by_control c a b ctl = c.between (smax a b) (smin a b) := by
  rw [C04T.between_by_control_eq]; exact C04.byControl_outside c a b ctl h0 h

/-- on an open curve a control above both lengths selects nothing -/
theorem by_control_open_above (c : Curve ℝ (V2 ℝ)) (a b ctl : ℝ) (h0 : ctl ≤ c.length)
    (hopen : c.closed = false) (h : smax a b < ctl) : GenRs.between_lengths_by_control c a b ctl = none := by
  rw [C04T.between_by_control_eq]; exact C04.byControl_open_above c a b ctl h0 hopen h

/-- trimming less than the tolerance away from the end leaves nothing (an ill-posed request) -/
theorem trim_front_shorter_than_tol (c : Curve ℝ (V2 ℝ)) (l : ℝ) (h : |c.length - l| < c.tol) :
    GenRs.trim_front c l = none := by
  rw [C04T.trim_front_eq]; exact C04.between_shorter_than_tol c l c.length h
/-! ### the range guard of `Curve2::at_length`, as the first statement of the function (regenerated) -/

/-- a cut position outside `[0, L]` yields no station — on every curve, closed ones included: lengths are not wrapped
    around a closed curve before the test (the translator's pattern requires the guard to be the FIRST statement) -/
theorem at_length_refuses_exactly_outside (total l : ℝ) :
    GenRs.at_length_guard total l = true ↔ l < 0 ∨ total < l := by
  unfold GenRs.at_length_guard
  simp

theorem at_length_accepts_the_whole_range (total l : ℝ) (h0 : 0 ≤ l) (h1 : l ≤ total) :
    GenRs.at_length_guard total l = false := by
  have := (at_length_refuses_exactly_outside total l).not.mpr (by push Not; exact ⟨h0, h1⟩)
  simpa using this

end C04U
