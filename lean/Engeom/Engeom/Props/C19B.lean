import Engeom.Props.C19
import Engeom.Lemmas.Basics
import Mathlib.LinearAlgebra.Matrix.Notation
import Mathlib.LinearAlgebra.Matrix.NonsingularInverse
import Mathlib.Algebra.BigOperators.Fin
/-
  C19 (continued) — means, the principal-axis decomposition under the contract assumed of the
  external SVD, and planes.  Everything over ℝ.
-/

namespace C19

/-! ### means -/

theorem countS_cons (p : V3 ℝ) (r : List (V3 ℝ)) : countS (p :: r) = countS r + 1 := rfl
theorem countS_eq_length (l : List (V3 ℝ)) : countS l = (l.length : ℝ) := by
  induction l with
  | nil => simp [countS]
  | cons p r ih => rw [countS_cons, ih, List.length_cons]; push_cast; ring
theorem countS_pos {l : List (V3 ℝ)} (h : l ≠ []) : 0 < countS l := by
  cases l with
  | nil => exact absurd rfl h
  | cons p r =>
    rw [countS_eq_length]; simp only [List.length_cons]; positivity
theorem countS_map (f : V3 ℝ → V3 ℝ) (l : List (V3 ℝ)) : countS (l.map f) = countS l := by
  rw [countS_eq_length, countS_eq_length, List.length_map]

theorem sumV3_cons (p : V3 ℝ) (r : List (V3 ℝ)) : sumV3 (p :: r) = V3.add p (sumV3 r) := rfl
theorem sumS_cons (x : ℝ) (r : List ℝ) : sumS (x :: r) = x + sumS r := rfl

/-- the sum of moved points is the moved sum -/
theorem sumV3_map_apply (T : Iso3 ℝ) (pts : List (V3 ℝ)) :
    sumV3 (pts.map T.apply) = V3.add (T.applyVec (sumV3 pts)) (V3.smul (countS pts) T.t) := by
  induction pts with
  | nil => simp [sumV3, countS, Iso3.applyVec, V3.dot, V3.add, V3.smul]
  | cons p r ih =>
    rw [List.map_cons, sumV3_cons, ih, sumV3_cons, countS_cons]
    simp only [Iso3.apply, Iso3.applyVec, V3.dot, V3.add, V3.smul, V3.mk.injEq]
    refine ⟨?_, ?_, ?_⟩ <;> ring

/-- **the centre is equivariant under every rigid (indeed affine) motion** -/
theorem meanPoint_equivariant (T : Iso3 ℝ) {pts : List (V3 ℝ)} (h : pts ≠ []) :
    meanPoint (pts.map T.apply) = T.apply (meanPoint pts) := by
  have hn : countS pts ≠ 0 := ne_of_gt (countS_pos h)
  unfold meanPoint; dsimp only
  rw [sumV3_map_apply, countS_map]
  simp only [Iso3.apply, Iso3.applyVec, V3.dot, V3.add, V3.smul, V3.mk.injEq]
  refine ⟨?_, ?_, ?_⟩ <;> field_simp

theorem weightedSum_map_apply (T : Iso3 ℝ) (pts : List (V3 ℝ)) (ws : List ℝ) :
    weightedSum (pts.map T.apply) ws =
      V3.add (T.applyVec (weightedSum pts ws)) (V3.smul (weightTotal pts ws) T.t) := by
  induction pts generalizing ws with
  | nil => simp [weightedSum, weightTotal, Iso3.applyVec, V3.dot, V3.add, V3.smul]
  | cons p r ih =>
    cases ws with
    | nil => simp [weightedSum, weightTotal, Iso3.applyVec, V3.dot, V3.add, V3.smul]
    | cons w ws =>
      simp only [List.map_cons, weightedSum, weightTotal, ih]
      simp only [Iso3.apply, Iso3.applyVec, V3.dot, V3.add, V3.smul, V3.mk.injEq]
      refine ⟨?_, ?_, ?_⟩ <;> ring

theorem weightTotal_map (f : V3 ℝ → V3 ℝ) (pts : List (V3 ℝ)) (ws : List ℝ) :
    weightTotal (pts.map f) ws = weightTotal pts ws := by
  induction pts generalizing ws with
  | nil => simp [weightTotal]
  | cons p r ih => cases ws with
    | nil => simp [weightTotal]
    | cons w ws => simp only [List.map_cons, weightTotal, ih]

theorem meanPointWeighted_equivariant (T : Iso3 ℝ) (pts : List (V3 ℝ)) (ws : List ℝ)
    (h : weightTotal pts ws ≠ 0) :
    meanPointWeighted (pts.map T.apply) ws = T.apply (meanPointWeighted pts ws) := by
  unfold meanPointWeighted; dsimp only
  rw [weightedSum_map_apply, weightTotal_map]
  simp only [Iso3.apply, Iso3.applyVec, V3.dot, V3.add, V3.smul, V3.mk.injEq]
  refine ⟨?_, ?_, ?_⟩ <;> field_simp

theorem weightedSum_scale (k : ℝ) (pts : List (V3 ℝ)) (ws : List ℝ) :
    weightedSum pts (ws.map (k * ·)) = V3.smul k (weightedSum pts ws) := by
  induction pts generalizing ws with
  | nil => simp [weightedSum, V3.smul]
  | cons p r ih => cases ws with
    | nil => simp [weightedSum, V3.smul]
    | cons w ws =>
      simp only [List.map_cons, weightedSum, ih]
      simp only [V3.add, V3.smul, V3.mk.injEq]
      refine ⟨?_, ?_, ?_⟩ <;> ring

theorem weightTotal_scale (k : ℝ) (pts : List (V3 ℝ)) (ws : List ℝ) :
    weightTotal pts (ws.map (k * ·)) = k * weightTotal pts ws := by
  induction pts generalizing ws with
  | nil => simp [weightTotal]
  | cons p r ih => cases ws with
    | nil => simp [weightTotal]
    | cons w ws => simp only [List.map_cons, weightTotal, ih]; ring

/-- **the weighted centre does not change when all weights are scaled by the same factor** -/
theorem meanPointWeighted_scale {k : ℝ} (hk : k ≠ 0) (pts : List (V3 ℝ)) (ws : List ℝ) :
    meanPointWeighted pts (ws.map (k * ·)) = meanPointWeighted pts ws := by
  unfold meanPointWeighted; dsimp only
  rw [weightedSum_scale, weightTotal_scale]
  simp only [V3.smul, V3.mk.injEq]
  exact ⟨mul_div_mul_left _ _ hk, mul_div_mul_left _ _ hk, mul_div_mul_left _ _ hk⟩

/-- with all weights equal the weighted centre is the plain mean -/
theorem meanPointWeighted_const {k : ℝ} (hk : k ≠ 0) (pts : List (V3 ℝ)) :
    meanPointWeighted pts (pts.map fun _ => k) = meanPoint pts := by
  have h1 : ∀ l : List (V3 ℝ), weightedSum l (l.map fun _ => k) = V3.smul k (sumV3 l) := by
    intro l; induction l with
    | nil => simp [weightedSum, sumV3, V3.smul]
    | cons p r ih =>
      simp only [List.map_cons, weightedSum, ih, sumV3_cons]
      simp only [V3.add, V3.smul, V3.mk.injEq]
      refine ⟨?_, ?_, ?_⟩ <;> ring
  have h2 : ∀ l : List (V3 ℝ), weightTotal l (l.map fun _ => k) = k * countS l := by
    intro l; induction l with
    | nil => simp [weightTotal, countS]
    | cons p r ih => simp only [List.map_cons, weightTotal, ih, countS_cons]; ring
  unfold meanPointWeighted meanPoint; dsimp only
  rw [h1, h2]
  simp only [V3.smul, V3.mk.injEq]
  exact ⟨mul_div_mul_left _ _ hk, mul_div_mul_left _ _ hk, mul_div_mul_left _ _ hk⟩

/-- the weighted centre is the point about which the weighted rows sum to zero -/
theorem centredRowsW_sum_zero (pts : List (V3 ℝ)) (ws : List ℝ) (h : weightTotal pts ws ≠ 0) :
    sumV3 (centredRowsW (meanPointWeighted pts ws) pts ws) = ⟨0, 0, 0⟩ := by
  have key : ∀ (c : V3 ℝ) (l : List (V3 ℝ)) (w : List ℝ),
      sumV3 (centredRowsW c l w) = V3.sub (weightedSum l w) (V3.smul (weightTotal l w) c) := by
    intro c l
    induction l with
    | nil => intro w; simp [centredRowsW, sumV3, weightedSum, weightTotal, V3.sub, V3.smul]
    | cons p r ih =>
      intro w
      cases w with
      | nil => simp [centredRowsW, sumV3, weightedSum, weightTotal, V3.sub, V3.smul]
      | cons x xs =>
        simp only [centredRowsW, sumV3_cons, ih, weightedSum, weightTotal]
        simp only [V3.add, V3.sub, V3.smul, V3.mk.injEq]
        refine ⟨?_, ?_, ?_⟩ <;> ring
  rw [key]
  unfold meanPointWeighted; dsimp only
  simp only [V3.sub, V3.smul, V3.mk.injEq]
  refine ⟨?_, ?_, ?_⟩ <;> field_simp <;> ring

/-! ### the Gram form -/

theorem gramForm_nil (u v : V3 ℝ) : gramForm [] u v = 0 := by simp [gramForm, sumS]
theorem gramForm_cons (a : V3 ℝ) (A : List (V3 ℝ)) (u v : V3 ℝ) :
    gramForm (a :: A) u v = V3.dot a u * V3.dot a v + gramForm A u v := rfl
theorem gramForm_symm (A : List (V3 ℝ)) (u v : V3 ℝ) : gramForm A u v = gramForm A v u := by
  induction A with
  | nil => simp [gramForm_nil]
  | cons a A ih => rw [gramForm_cons, gramForm_cons, ih]; ring
theorem gramForm_add_left (A : List (V3 ℝ)) (u u' v : V3 ℝ) :
    gramForm A (V3.add u u') v = gramForm A u v + gramForm A u' v := by
  induction A with
  | nil => simp [gramForm_nil]
  | cons a A ih => rw [gramForm_cons, gramForm_cons, gramForm_cons, ih]; simp only [V3.dot, V3.add]; ring
theorem gramForm_smul_left (A : List (V3 ℝ)) (k : ℝ) (u v : V3 ℝ) :
    gramForm A (V3.smul k u) v = k * gramForm A u v := by
  induction A with
  | nil => simp [gramForm_nil]
  | cons a A ih => rw [gramForm_cons, gramForm_cons, ih]; simp only [V3.dot, V3.smul]; ring
theorem gramForm_add_right (A : List (V3 ℝ)) (u v v' : V3 ℝ) :
    gramForm A u (V3.add v v') = gramForm A u v + gramForm A u v' := by
  rw [gramForm_symm, gramForm_add_left, gramForm_symm A v u, gramForm_symm A v' u]
theorem gramForm_smul_right (A : List (V3 ℝ)) (k : ℝ) (u v : V3 ℝ) :
    gramForm A u (V3.smul k v) = k * gramForm A u v := by
  rw [gramForm_symm, gramForm_smul_left, gramForm_symm]
theorem gramForm_self_nonneg (A : List (V3 ℝ)) (u : V3 ℝ) : 0 ≤ gramForm A u u := by
  induction A with
  | nil => simp [gramForm_nil]
  | cons a A ih => rw [gramForm_cons]; nlinarith [mul_self_nonneg (V3.dot a u)]
/-- the Gram form only sees rotated rows through rotated arguments -/
theorem gramForm_map_applyVec (T : Iso3 ℝ) (h : C03.IsRot3 T) (A : List (V3 ℝ)) (u v : V3 ℝ) :
    gramForm (A.map T.applyVec) (T.applyVec u) (T.applyVec v) = gramForm A u v := by
  induction A with
  | nil => simp [gramForm_nil]
  | cons a A ih =>
    rw [List.map_cons, gramForm_cons, gramForm_cons, ih, C03.dot_applyVec T h, C03.dot_applyVec T h]
theorem gramForm_map_smul (k : ℝ) (A : List (V3 ℝ)) (u v : V3 ℝ) :
    gramForm (A.map (V3.smul k)) u v = k * k * gramForm A u v := by
  induction A with
  | nil => simp [gramForm_nil]
  | cons a A ih =>
    rw [List.map_cons, gramForm_cons, gramForm_cons, ih]; simp only [V3.dot, V3.smul]; ring

/-! ### the contract assumed of the external SVD -/

/-- What the model assumes of `matrix.svd(false, true)` on the rows `A` (after the repair in
    `svd_from_vectors`, which recomputes the singular values from the vectors): the basis is
    orthonormal, it diagonalises the Gram form of the rows, the squared singular values are the
    diagonal, and they are ordered. `svdResiduals` evaluates the equalities on every run. -/
structure SvdContract (A : List (V3 ℝ)) (S : SvdBasis3M ℝ) : Prop where
  u0 : V3.dot S.b0 S.b0 = 1
  u1 : V3.dot S.b1 S.b1 = 1
  u2 : V3.dot S.b2 S.b2 = 1
  o01 : V3.dot S.b0 S.b1 = 0
  o02 : V3.dot S.b0 S.b2 = 0
  o12 : V3.dot S.b1 S.b2 = 0
  g01 : gramForm A S.b0 S.b1 = 0
  g02 : gramForm A S.b0 S.b2 = 0
  g12 : gramForm A S.b1 S.b2 = 0
  d0 : S.s0 * S.s0 = gramForm A S.b0 S.b0
  d1 : S.s1 * S.s1 = gramForm A S.b1 S.b1
  d2 : S.s2 * S.s2 = gramForm A S.b2 S.b2
  s10 : S.s1 ≤ S.s0
  s21 : S.s2 ≤ S.s1
  s2nn : 0 ≤ S.s2

theorem m3_zero_iff (a b c : ℝ) :
    smax (sabs a) (smax (sabs b) (sabs c)) = 0 ↔ a = 0 ∧ b = 0 ∧ c = 0 := by
  rw [smax_eq, smax_eq, sabs_eq, sabs_eq, sabs_eq]
  constructor
  · intro h
    have ha := abs_nonneg a; have hb := abs_nonneg b; have hc := abs_nonneg c
    have h1 : |a| ≤ 0 := h ▸ le_max_left _ _
    have h2 : max |b| |c| ≤ 0 := h ▸ le_max_right _ _
    have h3 : |b| ≤ 0 := le_trans (le_max_left _ _) h2
    have h4 : |c| ≤ 0 := le_trans (le_max_right _ _) h2
    exact ⟨abs_eq_zero.mp (le_antisymm h1 ha), abs_eq_zero.mp (le_antisymm h3 hb),
      abs_eq_zero.mp (le_antisymm h4 hc)⟩
  · rintro ⟨rfl, rfl, rfl⟩; simp

/-- the executable checker reports zero residuals exactly when the equalities of the contract
    hold -/
theorem svdResiduals_zero_iff (A : List (V3 ℝ)) (S : SvdBasis3M ℝ) :
    svdResiduals A S = (0, 0, 0) ↔
      (V3.dot S.b0 S.b0 = 1 ∧ V3.dot S.b1 S.b1 = 1 ∧ V3.dot S.b2 S.b2 = 1 ∧
        V3.dot S.b0 S.b1 = 0 ∧ V3.dot S.b0 S.b2 = 0 ∧ V3.dot S.b1 S.b2 = 0) ∧
      (gramForm A S.b0 S.b1 = 0 ∧ gramForm A S.b0 S.b2 = 0 ∧ gramForm A S.b1 S.b2 = 0) ∧
      (S.s0 * S.s0 = gramForm A S.b0 S.b0 ∧ S.s1 * S.s1 = gramForm A S.b1 S.b1 ∧
        S.s2 * S.s2 = gramForm A S.b2 S.b2) := by
  unfold svdResiduals; dsimp only
  rw [Prod.mk.injEq, Prod.mk.injEq, m3_zero_iff, m3_zero_iff]
  have hmax : ∀ x y : ℝ, 0 ≤ x → 0 ≤ y → (smax x y = 0 ↔ x = 0 ∧ y = 0) := by
    intro x y hx hy
    rw [smax_eq]
    constructor
    · intro h
      exact ⟨le_antisymm (h ▸ le_max_left _ _) hx, le_antisymm (h ▸ le_max_right _ _) hy⟩
    · rintro ⟨rfl, rfl⟩; simp
  have nn : ∀ a b c : ℝ, 0 ≤ smax (sabs a) (smax (sabs b) (sabs c)) := by
    intro a b c
    rw [smax_eq, sabs_eq]; exact le_trans (abs_nonneg a) (le_max_left _ _)
  rw [hmax _ _ (nn _ _ _) (nn _ _ _), m3_zero_iff, m3_zero_iff]
  constructor
  · rintro ⟨⟨⟨a, b, c⟩, d, e, f⟩, g, h, i, j⟩
    exact ⟨⟨by linarith, by linarith, by linarith, d, e, f⟩, g, ⟨by linarith, by linarith, by linarith⟩⟩
  · rintro ⟨⟨a, b, c, d, e, f⟩, g, h, i, j⟩
    exact ⟨⟨⟨by linarith, by linarith, by linarith⟩, d, e, f⟩, g, by linarith, by linarith, by linarith⟩

/-! ### completeness of an orthonormal triple; round trip through the basis -/

open Matrix in
/-- three orthonormal vectors of ℝ³ resolve the identity: `Σ (bᵢ·v) bᵢ = v` -/
theorem completeness {b0 b1 b2 : V3 ℝ} (u0 : V3.dot b0 b0 = 1) (u1 : V3.dot b1 b1 = 1)
    (u2 : V3.dot b2 b2 = 1) (o01 : V3.dot b0 b1 = 0) (o02 : V3.dot b0 b2 = 0)
    (o12 : V3.dot b1 b2 = 0) (v : V3 ℝ) :
    V3.add (V3.add (V3.smul (V3.dot b0 v) b0) (V3.smul (V3.dot b1 v) b1)) (V3.smul (V3.dot b2 v) b2)
      = v := by
  let B : Matrix (Fin 3) (Fin 3) ℝ := !![b0.x, b0.y, b0.z; b1.x, b1.y, b1.z; b2.x, b2.y, b2.z]
  have hBBt : B * Bᵀ = 1 := by
    simp only [V3.dot] at u0 u1 u2 o01 o02 o12
    ext i j
    fin_cases i <;> fin_cases j <;>
      simp [B, Matrix.mul_apply, Fin.sum_univ_three, Matrix.one_apply] <;> linarith
  have hBtB : Bᵀ * B = 1 := mul_eq_one_comm.mp hBBt
  have e (i j : Fin 3) : (Bᵀ * B) i j = (1 : Matrix (Fin 3) (Fin 3) ℝ) i j := by rw [hBtB]
  have e00 := e 0 0; have e01 := e 0 1; have e02 := e 0 2
  have e11 := e 1 1; have e12 := e 1 2; have e22 := e 2 2
  simp [B, Matrix.mul_apply, Fin.sum_univ_three, Matrix.one_apply] at e00 e01 e02 e11 e12 e22
  cases v with | mk vx vy vz =>
  simp only [V3.add, V3.smul, V3.dot, V3.mk.injEq]
  refine ⟨?_, ?_, ?_⟩
  · linear_combination vx * e00 + vy * e01 + vz * e02
  · linear_combination vx * e01 + vy * e11 + vz * e12
  · linear_combination vx * e02 + vy * e12 + vz * e22

/-- **to-basis followed by from-basis is the identity** -/
theorem fromBasis_toBasis {A : List (V3 ℝ)} {S : SvdBasis3M ℝ} (h : SvdContract A S) (q : V3 ℝ) :
    S.fromBasis (S.toBasis q) = q := by
  have hc := completeness h.u0 h.u1 h.u2 h.o01 h.o02 h.o12 (V3.sub q S.center)
  unfold SvdBasis3M.fromBasis SvdBasis3M.toBasis; dsimp only
  rw [hc]
  cases q; cases S.center; simp [V3.add, V3.sub]

/-- … and from-basis followed by to-basis -/
theorem toBasis_fromBasis {A : List (V3 ℝ)} {S : SvdBasis3M ℝ} (h : SvdContract A S) (q : V3 ℝ) :
    S.toBasis (S.fromBasis q) = q := by
  obtain ⟨u0, u1, u2, o01, o02, o12, _⟩ := h
  unfold SvdBasis3M.fromBasis SvdBasis3M.toBasis; dsimp only
  simp only [V3.dot] at u0 u1 u2 o01 o02 o12
  cases q with | mk x y z =>
  simp only [V3.add, V3.sub, V3.smul, V3.dot, V3.mk.injEq]
  refine ⟨?_, ?_, ?_⟩
  · linear_combination x * u0 + y * o01 + z * o02
  · linear_combination x * o01 + y * u1 + z * o12
  · linear_combination x * o02 + y * o12 + z * u2

/-! ### σ²/n is the variance along the axis -/

/-- population variance of a list of reals -/
noncomputable def variance (xs : List ℝ) : ℝ :=
  sumS (xs.map fun x => (x - sumS xs / xs.length) * (x - sumS xs / xs.length)) / xs.length

theorem dot_sumV3 (pts : List (V3 ℝ)) (b : V3 ℝ) :
    V3.dot (sumV3 pts) b = sumS (pts.map fun p => V3.dot p b) := by
  induction pts with
  | nil => simp [sumV3, sumS, V3.dot]
  | cons p r ih => rw [sumV3_cons, List.map_cons, sumS_cons, ← ih]; simp only [V3.dot, V3.add]; ring

theorem gramForm_centred (c b : V3 ℝ) (pts : List (V3 ℝ)) :
    gramForm (centredRows c pts) b b =
      sumS (pts.map fun p => (V3.dot p b - V3.dot c b) * (V3.dot p b - V3.dot c b)) := by
  induction pts with
  | nil => simp [centredRows, gramForm_nil, sumS]
  | cons p r ih =>
    have : centredRows c (p :: r) = V3.sub p c :: centredRows c r := rfl
    rw [this, gramForm_cons, ih, List.map_cons, sumS_cons]
    simp only [V3.dot, V3.sub]; ring

/-- **`basis_variances`**: for the unweighted decomposition of a non-empty set, `σᵢ² / n` is the
    variance of the points' coordinates along axis `i` -/
theorem variance_along_axis {pts : List (V3 ℝ)} (hne : pts ≠ []) {S : SvdBasis3M ℝ}
    (h : SvdContract (centredRows (meanPoint pts) pts) S) :
    S.s0 * S.s0 / countS pts = variance (pts.map fun p => V3.dot p S.b0) ∧
    S.s1 * S.s1 / countS pts = variance (pts.map fun p => V3.dot p S.b1) ∧
    S.s2 * S.s2 / countS pts = variance (pts.map fun p => V3.dot p S.b2) := by
  have hn : countS pts ≠ 0 := ne_of_gt (countS_pos hne)
  have key : ∀ b : V3 ℝ, gramForm (centredRows (meanPoint pts) pts) b b / countS pts =
      variance (pts.map fun p => V3.dot p b) := by
    intro b
    have hm : V3.dot (meanPoint pts) b = sumS (pts.map fun p => V3.dot p b) / countS pts := by
      rw [← dot_sumV3]
      unfold meanPoint; dsimp only
      simp only [V3.dot]; field_simp
    rw [gramForm_centred, hm]
    unfold variance
    rw [List.length_map, ← countS_eq_length, List.map_map]
    rfl
  exact ⟨by rw [h.d0]; exact key _, by rw [h.d1]; exact key _, by rw [h.d2]; exact key _⟩

/-! ### equivariance and weight scaling -/

theorem centredRows_map_apply (T : Iso3 ℝ) (c : V3 ℝ) (pts : List (V3 ℝ)) :
    centredRows (T.apply c) (pts.map T.apply) = (centredRows c pts).map T.applyVec := by
  unfold centredRows
  rw [List.map_map, List.map_map]
  apply List.map_congr_left
  intro p _
  exact C03.sub_apply T p c

theorem centredRowsW_map_apply (T : Iso3 ℝ) (c : V3 ℝ) (pts : List (V3 ℝ)) (ws : List ℝ) :
    centredRowsW (T.apply c) (pts.map T.apply) ws = (centredRowsW c pts ws).map T.applyVec := by
  induction pts generalizing ws with
  | nil => simp [centredRowsW]
  | cons p r ih => cases ws with
    | nil => simp [centredRowsW]
    | cons w ws =>
      simp only [List.map_cons, centredRowsW, ih, C03.sub_apply]
      congr 1
      simp only [Iso3.applyVec, V3.dot, V3.smul, V3.mk.injEq]
      refine ⟨?_, ?_, ?_⟩ <;> ring

/-- the decomposition moved by a rigid motion -/
def movedBasis (S : SvdBasis3M ℝ) (T : Iso3 ℝ) : SvdBasis3M ℝ :=
  ⟨T.applyVec S.b0, T.applyVec S.b1, T.applyVec S.b2, S.s0, S.s1, S.s2, T.apply S.center⟩

/-- **Equivariance**: if `S` meets the contract on rows `A`, the moved decomposition (rotated
    axes, same singular values) meets it on the rotated rows — and the rows of the moved points,
    centred on the moved centre, are exactly the rotated rows (`centredRows_map_apply`,
    `centredRowsW_map_apply`, `meanPoint_equivariant`). -/
theorem contract_moved (T : Iso3 ℝ) (hT : C03.IsRot3 T) {A : List (V3 ℝ)} {S : SvdBasis3M ℝ}
    (h : SvdContract A S) : SvdContract (A.map T.applyVec) (movedBasis S T) := by
  obtain ⟨u0, u1, u2, o01, o02, o12, g01, g02, g12, d0, d1, d2, s10, s21, s2nn⟩ := h
  unfold movedBasis
  refine ⟨?_, ?_, ?_, ?_, ?_, ?_, ?_, ?_, ?_, ?_, ?_, ?_, s10, s21, s2nn⟩ <;>
    simp only [C03.dot_applyVec T hT, gramForm_map_applyVec T hT] <;> assumption

theorem svd_equivariant_unweighted (T : Iso3 ℝ) (hT : C03.IsRot3 T) {pts : List (V3 ℝ)}
    (hne : pts ≠ []) {S : SvdBasis3M ℝ} (h : SvdContract (centredRows (meanPoint pts) pts) S) :
    SvdContract (centredRows (meanPoint (pts.map T.apply)) (pts.map T.apply)) (movedBasis S T) := by
  rw [meanPoint_equivariant T hne, centredRows_map_apply]
  exact contract_moved T hT h

theorem svd_equivariant_weighted (T : Iso3 ℝ) (hT : C03.IsRot3 T) (pts : List (V3 ℝ)) (ws : List ℝ)
    (hw : weightTotal pts ws ≠ 0) {S : SvdBasis3M ℝ}
    (h : SvdContract (centredRowsW (meanPointWeighted pts ws) pts ws) S) :
    SvdContract (centredRowsW (meanPointWeighted (pts.map T.apply) ws) (pts.map T.apply) ws)
      (movedBasis S T) := by
  rw [meanPointWeighted_equivariant T pts ws hw, centredRowsW_map_apply]
  exact contract_moved T hT h

theorem centredRowsW_scale (k : ℝ) (c : V3 ℝ) (pts : List (V3 ℝ)) (ws : List ℝ) :
    centredRowsW c pts (ws.map (k * ·)) = (centredRowsW c pts ws).map (V3.smul k) := by
  induction pts generalizing ws with
  | nil => simp [centredRowsW]
  | cons p r ih => cases ws with
    | nil => simp [centredRowsW]
    | cons w ws =>
      simp only [List.map_cons, centredRowsW, ih]
      congr 1
      simp only [V3.smul, V3.sub, V3.mk.injEq]
      refine ⟨?_, ?_, ?_⟩ <;> ring

/-- **Uniform weight scaling**: multiplying every weight by `k > 0` keeps the centre and the axes
    and multiplies the singular values by `k`. -/
theorem svd_weight_scaling {k : ℝ} (hk : 0 < k) (pts : List (V3 ℝ)) (ws : List ℝ) {S : SvdBasis3M ℝ}
    (h : SvdContract (centredRowsW (meanPointWeighted pts ws) pts ws) S) :
    SvdContract
      (centredRowsW (meanPointWeighted pts (ws.map (k * ·))) pts (ws.map (k * ·)))
      ⟨S.b0, S.b1, S.b2, k * S.s0, k * S.s1, k * S.s2, S.center⟩ := by
  obtain ⟨u0, u1, u2, o01, o02, o12, g01, g02, g12, d0, d1, d2, s10, s21, s2nn⟩ := h
  rw [meanPointWeighted_scale (ne_of_gt hk), centredRowsW_scale]
  refine ⟨u0, u1, u2, o01, o02, o12, ?_, ?_, ?_, ?_, ?_, ?_, ?_, ?_, ?_⟩
  · rw [gramForm_map_smul, g01]; ring
  · rw [gramForm_map_smul, g02]; ring
  · rw [gramForm_map_smul, g12]; ring
  · rw [gramForm_map_smul, ← d0]; ring
  · rw [gramForm_map_smul, ← d1]; ring
  · rw [gramForm_map_smul, ← d2]; ring
  · exact mul_le_mul_of_nonneg_left s10 hk.le
  · exact mul_le_mul_of_nonneg_left s21 hk.le
  · exact mul_nonneg hk.le s2nn

/-- The expression the code had before the repair, `p − w·c`, is *not* compatible with weight
    scaling: doubling the weight does not double the row. -/
theorem prefix_rows_not_scale_equivariant :
    centredRowsWPrefix (⟨1, 0, 0⟩ : V3 ℝ) [⟨2, 0, 0⟩] [2 * 1] ≠
      (centredRowsWPrefix (⟨1, 0, 0⟩ : V3 ℝ) [⟨2, 0, 0⟩] [1]).map (V3.smul 2) := by
  simp [centredRowsWPrefix, V3.sub, V3.smul]
  norm_num

/-! ### rank reflects the dimension of the set -/

theorem sq_zero_of {x : ℝ} (h : x * x = 0) : x = 0 := by
  rcases mul_eq_zero.mp h with h | h <;> exact h

theorem gramForm_rows_zero {A : List (V3 ℝ)} (hA : ∀ a ∈ A, a = (⟨0, 0, 0⟩ : V3 ℝ)) (u v : V3 ℝ) :
    gramForm A u v = 0 := by
  induction A with
  | nil => exact gramForm_nil u v
  | cons a A ih =>
    rw [gramForm_cons, ih (fun x hx => hA x (List.mem_cons_of_mem _ hx)),
      hA a (List.mem_cons_self ..)]
    simp [V3.dot]

theorem gramForm_rows_orthogonal {A : List (V3 ℝ)} {n : V3 ℝ} (hA : ∀ a ∈ A, V3.dot a n = 0) :
    gramForm A n n = 0 := by
  induction A with
  | nil => exact gramForm_nil _ _
  | cons a A ih =>
    rw [gramForm_cons, ih (fun x hx => hA x (List.mem_cons_of_mem _ hx)),
      hA a (List.mem_cons_self ..)]
    ring

/-- coincident points (all rows zero): every singular value is zero, rank 0 -/
theorem rank_coincident {A : List (V3 ℝ)} (hA : ∀ a ∈ A, a = (⟨0, 0, 0⟩ : V3 ℝ)) {S : SvdBasis3M ℝ}
    (h : SvdContract A S) {tol : ℝ} (ht : 0 ≤ tol) : S.rank tol = 0 := by
  have hz : ∀ u v : V3 ℝ, gramForm A u v = 0 := gramForm_rows_zero hA
  have h0 := sq_zero_of (h.d0.trans (hz _ _))
  have h1 := sq_zero_of (h.d1.trans (hz _ _))
  have h2 := sq_zero_of (h.d2.trans (hz _ _))
  unfold SvdBasis3M.rank
  rw [h0, h1, h2]
  simp [not_lt.mpr ht]

theorem gramForm_collinear (d : V3 ℝ) (ts : List ℝ) (u v : V3 ℝ) :
    gramForm (ts.map fun t => V3.smul t d) u v =
      sumS (ts.map fun t => t * t) * (V3.dot d u * V3.dot d v) := by
  induction ts with
  | nil => simp [gramForm_nil, sumS]
  | cons t r ih =>
    rw [List.map_cons, gramForm_cons, ih, List.map_cons, sumS_cons]
    simp only [V3.dot, V3.smul]; ring

/-- collinear points (every row a multiple of one direction): at most one non-zero singular
    value, rank ≤ 1 -/
theorem rank_collinear (d : V3 ℝ) (ts : List ℝ) {S : SvdBasis3M ℝ}
    (h : SvdContract (ts.map fun t => V3.smul t d) S) {tol : ℝ} (ht : 0 ≤ tol) :
    S.s1 = 0 ∧ S.s2 = 0 ∧ S.rank tol ≤ 1 := by
  obtain ⟨_, _, _, _, _, _, g01, _, _, d0, d1, _, s10, s21, s2nn⟩ := h
  rw [gramForm_collinear] at g01 d0 d1
  set Tt := sumS (ts.map fun t => t * t) with hT
  have hs1 : S.s1 = 0 := by
    by_contra hne
    have hpos : 0 < S.s1 := lt_of_le_of_ne (le_trans s2nn s21) (Ne.symm hne)
    have h1 : Tt * (V3.dot d S.b1 * V3.dot d S.b1) ≠ 0 := by
      rw [← d1]; exact ne_of_gt (mul_pos hpos hpos)
    have hTne : Tt ≠ 0 := left_ne_zero_of_mul h1
    have hb1 : V3.dot d S.b1 ≠ 0 := left_ne_zero_of_mul (right_ne_zero_of_mul h1)
    have hb0 : V3.dot d S.b0 = 0 := by
      rcases mul_eq_zero.mp g01 with h | h
      · exact absurd h hTne
      · rcases mul_eq_zero.mp h with h | h
        · exact h
        · exact absurd h hb1
    have : S.s0 = 0 := sq_zero_of (by rw [d0, hb0]; ring)
    linarith
  have hs2 : S.s2 = 0 := le_antisymm (hs1 ▸ s21) s2nn
  refine ⟨hs1, hs2, ?_⟩
  unfold SvdBasis3M.rank
  rw [hs1, hs2]
  simp only [not_lt.mpr ht, if_false]
  split <;> simp

/-- planar points (every row orthogonal to a non-zero normal): the smallest singular value is
    zero, rank ≤ 2 -/
theorem rank_planar {A : List (V3 ℝ)} {n : V3 ℝ} (hn : n ≠ ⟨0, 0, 0⟩)
    (hA : ∀ a ∈ A, V3.dot a n = 0) {S : SvdBasis3M ℝ} (h : SvdContract A S) {tol : ℝ}
    (ht : 0 ≤ tol) : S.s2 = 0 ∧ S.rank tol ≤ 2 := by
  have hc := completeness h.u0 h.u1 h.u2 h.o01 h.o02 h.o12 n
  obtain ⟨u0, u1, u2, o01, o02, o12, g01, g02, g12, d0, d1, d2, s10, s21, s2nn⟩ := h
  have hz : gramForm A n n = 0 := gramForm_rows_orthogonal hA
  set x := V3.dot S.b0 n
  set y := V3.dot S.b1 n
  set z := V3.dot S.b2 n
  have hexp : gramForm A n n = x * x * (S.s0 * S.s0) + y * y * (S.s1 * S.s1) + z * z * (S.s2 * S.s2) := by
    conv_lhs => rw [← hc]
    simp only [gramForm_add_left, gramForm_add_right, gramForm_smul_left, gramForm_smul_right]
    rw [gramForm_symm A S.b1 S.b0, gramForm_symm A S.b2 S.b0, gramForm_symm A S.b2 S.b1,
      g01, g02, g12, ← d0, ← d1, ← d2]
    ring
  rw [hz] at hexp
  have t0 : 0 ≤ x * x * (S.s0 * S.s0) := mul_nonneg (mul_self_nonneg _) (mul_self_nonneg _)
  have t1 : 0 ≤ y * y * (S.s1 * S.s1) := mul_nonneg (mul_self_nonneg _) (mul_self_nonneg _)
  have t2 : 0 ≤ z * z * (S.s2 * S.s2) := mul_nonneg (mul_self_nonneg _) (mul_self_nonneg _)
  have z0 : x * x * (S.s0 * S.s0) = 0 := by linarith
  have z1 : y * y * (S.s1 * S.s1) = 0 := by linarith
  have z2 : z * z * (S.s2 * S.s2) = 0 := by linarith
  have hs2 : S.s2 = 0 := by
    by_contra hne
    have hpos2 : 0 < S.s2 := lt_of_le_of_ne s2nn (Ne.symm hne)
    have hpos1 : 0 < S.s1 := lt_of_lt_of_le hpos2 s21
    have hpos0 : 0 < S.s0 := lt_of_lt_of_le hpos1 s10
    have hx : x = 0 := by
      rcases mul_eq_zero.mp z0 with h | h
      · exact sq_zero_of h
      · exact absurd (sq_zero_of h) (ne_of_gt hpos0)
    have hy : y = 0 := by
      rcases mul_eq_zero.mp z1 with h | h
      · exact sq_zero_of h
      · exact absurd (sq_zero_of h) (ne_of_gt hpos1)
    have hz' : z = 0 := by
      rcases mul_eq_zero.mp z2 with h | h
      · exact sq_zero_of h
      · exact absurd (sq_zero_of h) (ne_of_gt hpos2)
    apply hn
    rw [← hc, hx, hy, hz']
    simp [V3.add, V3.smul]
  refine ⟨hs2, ?_⟩
  unfold SvdBasis3M.rank
  rw [hs2]
  simp only [not_lt.mpr ht, if_false]
  split <;> split <;> simp

/-! ### planes -/

/-- a plane through three points contains them (the normal is the normalised cross product; for a
    collinear triple the Rust normal is NaN and no plane is defined — excluded by `hN`) -/
theorem plane_contains_three (p1 p2 p3 : V3 ℝ) :
    let P := Plane3.ofThreePoints p1 p2 p3
    P.signedDistance p1 = 0 ∧ P.signedDistance p2 = 0 ∧ P.signedDistance p3 = 0 := by
  simp only [Plane3.ofThreePoints, Plane3.ofNormalPoint, Plane3.signedDistance, normalize3,
    Plane3.rawNormal3, V3.dot, V3.cross, V3.sub]
  refine ⟨by ring, ?_, ?_⟩ <;> (field_simp; ring)

theorem v3_zero_of_normSq {r : V3 ℝ} (h0 : V3.dot r r = 0) : r = ⟨0, 0, 0⟩ := by
  cases r with | mk x y z =>
  simp only [V3.dot] at h0
  have hx : x = 0 := by nlinarith [mul_self_nonneg x, mul_self_nonneg y, mul_self_nonneg z]
  have hy : y = 0 := by nlinarith [mul_self_nonneg x, mul_self_nonneg y, mul_self_nonneg z]
  have hz : z = 0 := by nlinarith [mul_self_nonneg x, mul_self_nonneg y, mul_self_nonneg z]
  simp [hx, hy, hz]

theorem normalize3_unit {r : V3 ℝ} (hN : r ≠ ⟨0, 0, 0⟩) :
    V3.dot (normalize3 r) (normalize3 r) = 1 ∧ 0 < V3.dot (normalize3 r) r := by
  have hnn : 0 ≤ V3.dot r r := by
    simp only [V3.dot]; nlinarith [mul_self_nonneg r.x, mul_self_nonneg r.y, mul_self_nonneg r.z]
  have hpos : 0 < V3.dot r r := lt_of_le_of_ne hnn (fun h => hN (v3_zero_of_normSq h.symm))
  have hnpos : 0 < V3.norm r := Real.sqrt_pos.mpr hpos
  have hsq := norm_sq r
  simp only [normalize3]
  simp only [V3.dot] at hsq hpos ⊢
  constructor
  · field_simp; nlinarith
  · have : r.x / V3.norm r * r.x + r.y / V3.norm r * r.y + r.z / V3.norm r * r.z
        = (r.x * r.x + r.y * r.y + r.z * r.z) / V3.norm r := by field_simp
    rw [this]; positivity

/-- … and for a proper (non-collinear) triple its normal is a unit vector pointing along
    `(p2 − p1) × (p3 − p1)` -/
theorem plane_three_unit_normal (p1 p2 p3 : V3 ℝ) (hN : Plane3.rawNormal3 p1 p2 p3 ≠ ⟨0, 0, 0⟩) :
    let P := Plane3.ofThreePoints p1 p2 p3
    V3.dot P.normal P.normal = 1 ∧ 0 < V3.dot P.normal (Plane3.rawNormal3 p1 p2 p3) :=
  normalize3_unit hN

/-- a plane from a point and a normal, or from a surface point, contains the point -/
theorem plane_contains_point (n p : V3 ℝ) : (Plane3.ofNormalPoint n p).signedDistance p = 0 := by
  simp [Plane3.ofNormalPoint, Plane3.signedDistance]

/-- a point of the plane projects onto itself -/
theorem plane_project_fixed (P : Plane3 ℝ) (q : V3 ℝ) (h : P.signedDistance q = 0) :
    P.project q = q := by
  unfold Plane3.project; rw [h]
  cases q; simp [V3.sub, V3.smul]

/-- `intersection_distance`: the point at the returned distance along the ray lies on the plane -/
theorem plane_intersection_hits (P : Plane3 ℝ) (hn : V3.dot P.normal P.normal = 1) (tol : ℝ)
    (ht : 0 ≤ tol) (sp : SP3 ℝ) {t : ℝ} (h : P.intersectionDistance tol sp = some t) :
    P.signedDistance (sp.atDistance t) = 0 := by
  unfold Plane3.intersectionDistance at h; dsimp only at h
  split at h
  · simp at h
  · rename_i hd
    have hpos : 0 < V3.dot P.normal sp.normal := lt_of_le_of_lt ht (not_le.mp hd)
    have hne : V3.dot P.normal sp.normal ≠ 0 := ne_of_gt hpos
    simp only [Option.some.injEq] at h
    subst h
    simp only [Plane3.signedDistance, SP3.atDistance, V3.dot, V3.add, V3.smul, V3.sub] at hn hne ⊢
    field_simp
    linear_combination (P.d * (P.normal.x * sp.normal.x + P.normal.y * sp.normal.y + P.normal.z * sp.normal.z)) * hn

/-- non-vacuity of the contract: the axis-aligned cross of the repository's own unit test -/
example : SvdContract [⟨-2, 0, 0⟩, ⟨2, 0, 0⟩, ⟨0, 1, 0⟩, ⟨0, -1, 0⟩]
    ⟨⟨1, 0, 0⟩, ⟨0, 1, 0⟩, ⟨0, 0, 1⟩, Real.sqrt 8, Real.sqrt 2, 0, ⟨0, 0, 0⟩⟩ := by
  have h8 : Real.sqrt 8 * Real.sqrt 8 = 8 := Real.mul_self_sqrt (by norm_num)
  have h2 : Real.sqrt 2 * Real.sqrt 2 = 2 := Real.mul_self_sqrt (by norm_num)
  refine ⟨?_, ?_, ?_, ?_, ?_, ?_, ?_, ?_, ?_, ?_, ?_, ?_, ?_, ?_, ?_⟩ <;>
    simp [gramForm, sumS, V3.dot, h8, h2] <;> try norm_num

end C19
