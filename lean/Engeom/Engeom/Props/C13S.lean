import Engeom.Props.C13G
import Engeom.Lemmas.Basics
/-
  C13 (continued) — `Mesh::plane_crossing_segments`, the code that now produces the section
  (model: `planeCrossingSegments`, every statement of the Rust loop).  Every ordered field.

  Main results:
  * `keyPoint_edge_on_plane`, `keyPoint_vertex_near_plane`: a section point is exactly on the plane
    (crossed edge) or within the snapping threshold of it (on-plane vertex);
  * `keyPoint_edge_inside`: the point of a crossed edge is strictly inside that edge;
  * `sections_inv`: after any number of faces every stored point is the point of its key, every key
    is legitimate, and every index pair refers to stored points;
  * `section_points_near_plane`: hence every vertex of every section curve is within the threshold of
    the plane — whatever the mesh (open, closed, any winding) and wherever the plane is.
-/

set_option linter.unusedSectionVars false
namespace C13

variable {F : Type} [Field F] [LinearOrder F] [IsStrictOrderedRing F]

theorem isZero_iff (d : F) : isZero d = true ↔ d = 0 := by
  unfold isZero
  simp only [Bool.and_eq_true, Bool.not_eq_true', decide_eq_false_iff_not, not_lt]
  constructor
  · rintro ⟨h1, h2⟩; exact le_antisymm h2 h1
  · rintro rfl; exact ⟨le_refl _, le_refl _⟩

theorem isBelow_iff (d : F) : isBelow d = true ↔ d < 0 := by simp [isBelow]

/-- snapping returns zero or the value itself -/
theorem snapDist_cases (eps d : F) : snapDist eps d = 0 ∨ (snapDist eps d = d ∧ eps < |d|) := by
  unfold snapDist
  rw [sabs_eq]
  split_ifs with h
  · exact Or.inl rfl
  · exact Or.inr ⟨rfl, not_le.mp h⟩

theorem snapDist_zero (eps d : F) (h : snapDist eps d = 0) (he : 0 ≤ eps) : |d| ≤ eps := by
  unfold snapDist at h
  rw [sabs_eq] at h
  split_ifs at h with hc
  · exact hc
  · rw [h, abs_zero]; exact he

theorem distOf_getD (P : Plane3 F) (eps : F) (verts : List (V3 F)) (i : Nat) (hne : (distOf P eps verts).getD i 0 ≠ 0) :
    (distOf P eps verts).getD i 0 = P.signedDistance (verts.getD i ⟨0, 0, 0⟩) := by
  unfold distOf at *
  by_cases hi : i < verts.length
  · simp only [List.getD_eq_getElem?_getD, List.getElem?_map, List.getElem?_eq_getElem hi, Option.map_some,
      Option.getD_some] at hne ⊢
    rcases snapDist_cases eps (P.signedDistance verts[i]) with h | h
    · exact absurd h hne
    · exact h.1
  · simp [List.getD_eq_getElem?_getD, List.getElem?_map, List.getElem?_eq_none (not_lt.mp hi)] at hne

theorem distOf_zero (P : Plane3 F) (eps : F) (he : 0 ≤ eps) (verts : List (V3 F)) (i : Nat) (hi : i < verts.length)
    (hz : (distOf P eps verts).getD i 0 = 0) : |P.signedDistance (verts.getD i ⟨0, 0, 0⟩)| ≤ eps := by
  unfold distOf at hz
  simp only [List.getD_eq_getElem?_getD, List.getElem?_map, List.getElem?_eq_getElem hi, Option.map_some,
    Option.getD_some] at hz ⊢
  exact snapDist_zero eps _ hz he

/-- **The point stored for a crossed edge lies exactly on the plane.** -/
theorem keyPoint_edge_on_plane (P : Plane3 F) (eps : F) (verts : List (V3 F)) (i j : Nat)
    (hi : (distOf P eps verts).getD i 0 ≠ 0) (hj : (distOf P eps verts).getD j 0 ≠ 0)
    (hs : (distOf P eps verts).getD i 0 ≠ (distOf P eps verts).getD j 0) :
    P.signedDistance (keyPoint verts (distOf P eps verts) (.edge i j)) = 0 := by
  have ei := distOf_getD P eps verts i hi
  have ej := distOf_getD P eps verts j hj
  unfold keyPoint
  dsimp only
  rw [ei, ej] at hs ⊢
  have hne : P.signedDistance (verts.getD i ⟨0, 0, 0⟩) - P.signedDistance (verts.getD j ⟨0, 0, 0⟩) ≠ 0 :=
    sub_ne_zero.mpr hs
  simp only [Plane3.signedDistance, V3.dot, V3.add, V3.smul, V3.sub] at hne ⊢
  field_simp
  ring

/-- **… and strictly inside the edge** (parameter in (0, 1)) when the ends are on opposite sides -/
theorem keyPoint_edge_inside (di dj : F) (h : (di < 0 ∧ 0 < dj) ∨ (0 < di ∧ dj < 0)) :
    0 < di / (di - dj) ∧ di / (di - dj) < 1 := by
  rcases h with ⟨h1, h2⟩ | ⟨h1, h2⟩
  · have hd : di - dj < 0 := by linarith
    exact ⟨div_pos_of_neg_of_neg h1 hd, by rw [div_lt_one_of_neg hd]; linarith⟩
  · have hd : 0 < di - dj := by linarith
    exact ⟨div_pos h1 hd, by rw [div_lt_one hd]; linarith⟩

/-- **The point stored for an on-plane vertex is within the threshold of the plane.** -/
theorem keyPoint_vertex_near_plane (P : Plane3 F) (eps : F) (he : 0 ≤ eps) (verts : List (V3 F)) (i : Nat)
    (hi : i < verts.length) (hz : (distOf P eps verts).getD i 0 = 0) :
    |P.signedDistance (keyPoint verts (distOf P eps verts) (.vertex i))| ≤ eps := by
  unfold keyPoint
  exact distOf_zero P eps he verts i hi hz

/-! ### the loop invariant -/

/-- a key the loop may create -/
def KeyOK (dist : List F) (nverts : Nat) : SecKey → Prop
  | .vertex i => i < nverts ∧ dist.getD i 0 = 0
  | .edge i j => dist.getD i 0 ≠ 0 ∧ dist.getD j 0 ≠ 0 ∧ dist.getD i 0 ≠ dist.getD j 0

structure SecInv (verts : List (V3 F)) (dist : List F) (s : SecState F) : Prop where
  len : s.points.length = s.keys.length
  pts : ∀ (i : Nat) (k : SecKey), s.keys[i]? = some k → s.points[i]? = some (keyPoint verts dist k)
  pairs : ∀ pr ∈ s.pairs, pr.1 < s.keys.length ∧ pr.2 < s.keys.length

theorem findKey_spec (k : SecKey) : ∀ (l : List SecKey) (o i : Nat), findKey k l o = some i →
    o ≤ i ∧ l[i - o]? = some k
  | [], o, i, h => by simp [findKey] at h
  | a :: r, o, i, h => by
    unfold findKey at h
    split_ifs at h with ha
    · simp only [Option.some.injEq] at h
      subst h
      simp [ha]
    · obtain ⟨h1, h2⟩ := findKey_spec k r (o + 1) i h
      refine ⟨by omega, ?_⟩
      have : i - o = (i - (o + 1)) + 1 := by omega
      rw [this, List.getElem?_cons_succ]
      exact h2

theorem findKey_lt (k : SecKey) (l : List SecKey) (i : Nat) (h : findKey k l 0 = some i) : i < l.length := by
  obtain ⟨_, h2⟩ := findKey_spec k l 0 i h
  simp only [Nat.sub_zero] at h2
  exact (List.getElem?_eq_some_iff.mp h2).1

/-- `intern` keeps the invariant, only appends, and returns a valid index -/
theorem intern_inv (verts : List (V3 F)) (dist : List F) (s : SecState F) (k : SecKey) (h : SecInv verts dist s) :
    SecInv verts dist (s.intern verts dist k).1 ∧ (s.intern verts dist k).2 < (s.intern verts dist k).1.keys.length ∧
      s.keys.length ≤ (s.intern verts dist k).1.keys.length ∧ (s.intern verts dist k).1.pairs = s.pairs := by
  unfold SecState.intern
  cases hf : findKey k s.keys 0 with
  | some i =>
    exact ⟨h, findKey_lt k s.keys i hf, le_refl _, rfl⟩
  | none =>
    refine ⟨⟨?_, ?_, ?_⟩, ?_, ?_, rfl⟩
    · simp [h.len]
    · intro i kk hk
      by_cases hi : i < s.keys.length
      · rw [List.getElem?_append_left hi] at hk
        rw [List.getElem?_append_left (by rw [h.len]; exact hi)]
        exact h.pts i kk hk
      · have hi' : i = s.keys.length := by
          have := (List.getElem?_eq_some_iff.mp hk).1
          simp at this
          omega
        subst hi'
        rw [List.getElem?_append_right (le_refl _)] at hk
        simp only [Nat.sub_self, List.getElem?_cons_zero, Option.some.injEq] at hk
        subst hk
        rw [List.getElem?_append_right (by rw [h.len])]
        simp [h.len]
    · intro pr hpr
      have := h.pairs pr hpr
      simp only [List.length_append, List.length_cons, List.length_nil]
      omega
    · simp
    · simp

/-- one face keeps the invariant -/
theorem sectionFace_inv (P : Plane3 F) (verts : List (V3 F)) (dist : List F) (faces : List (Nat × Nat × Nat))
    (s : SecState F) (f : Nat × Nat × Nat) (h : SecInv verts dist s) :
    SecInv verts dist (sectionFace P verts dist faces s f) := by
  unfold sectionFace
  dsimp only
  split_ifs
  · exact h
  · exact h
  · split
    · rename_i k0 k1 _
      obtain ⟨h1, hi0, hl1, hp1⟩ := intern_inv verts dist s k0 h
      obtain ⟨h2, hi1, hl2, hp2⟩ := intern_inv verts dist (s.intern verts dist k0).1 k1 h1
      refine ⟨h2.len, h2.pts, ?_⟩
      intro pr hpr
      simp only [List.mem_append, List.mem_singleton] at hpr
      rcases hpr with hpr | hpr
      · exact h2.pairs pr hpr
      · have hb : (s.intern verts dist k0).2 < ((s.intern verts dist k0).1.intern verts dist k1).1.keys.length :=
          lt_of_lt_of_le hi0 hl2
        split_ifs at hpr <;> (subst hpr; exact ⟨by first | exact hi1 | exact hb, by first | exact hb | exact hi1⟩)
    · exact h

theorem sections_inv (P : Plane3 F) (verts : List (V3 F)) (dist : List F) (all : List (Nat × Nat × Nat)) :
    ∀ (faces : List (Nat × Nat × Nat)) (s : SecState F), SecInv verts dist s →
      SecInv verts dist (faces.foldl (sectionFace P verts dist all) s)
  | [], s, h => h
  | f :: r, s, h => sections_inv P verts dist all r _ (sectionFace_inv P verts dist all s f h)

/-- every index pair of the result refers to stored points: `points[pair]` never falls back -/
theorem planeCrossingSegments_pairs_valid (P : Plane3 F) (eps : F) (verts : List (V3 F)) (faces : List (Nat × Nat × Nat)) :
    ∀ pr ∈ (planeCrossingSegments P eps verts faces).2,
      pr.1 < (planeCrossingSegments P eps verts faces).1.length ∧ pr.2 < (planeCrossingSegments P eps verts faces).1.length := by
  have h0 : SecInv verts (distOf P eps verts) (⟨[], [], []⟩ : SecState F) := ⟨rfl, by simp, by simp⟩
  have h := sections_inv P verts (distOf P eps verts) faces faces _ h0
  intro pr hpr
  have := h.pairs pr hpr
  show pr.1 < (faces.foldl (sectionFace P verts (distOf P eps verts) faces) ⟨[], [], []⟩).points.length ∧
    pr.2 < (faces.foldl (sectionFace P verts (distOf P eps verts) faces) ⟨[], [], []⟩).points.length
  rw [h.len]
  exact this

/-! ### the keys a face produces are legitimate, hence all points are near the plane -/

theorem faceEnds_ok (dist : List F) (nverts : Nat) (f : Nat × Nat × Nat)
    (hf : f.1 < nverts ∧ f.2.1 < nverts ∧ f.2.2 < nverts) :
    ∀ k ∈ faceEnds f (dist.getD f.1 0) (dist.getD f.2.1 0) (dist.getD f.2.2 0), KeyOK dist nverts k := by
  have one : ∀ (a b : Nat), a < nverts → ∀ k ∈ (if isZero (dist.getD a 0) then [SecKey.vertex a]
      else if !(isZero (dist.getD b 0)) && (isBelow (dist.getD a 0) != isBelow (dist.getD b 0)) then
        [SecKey.edge (ekey a b).1 (ekey a b).2] else []), KeyOK dist nverts k := by
    intro a b ha k hk
    split_ifs at hk with h1 h2
    · simp only [List.mem_singleton] at hk; subst hk
      exact ⟨ha, (isZero_iff _).mp h1⟩
    · simp only [List.mem_singleton] at hk; subst hk
      simp only [Bool.and_eq_true, Bool.not_eq_true', bne_iff_ne, ne_eq] at h2
      have hza : dist.getD a 0 ≠ 0 := fun h => h1 ((isZero_iff _).mpr h)
      have hzb : dist.getD b 0 ≠ 0 := fun h => by
        have := (isZero_iff (dist.getD b 0)).mpr h
        rw [this] at h2; exact absurd h2.1 (by simp)
      have hne : dist.getD a 0 ≠ dist.getD b 0 := fun h => h2.2 (by rw [h])
      unfold ekey
      split_ifs
      · exact ⟨hza, hzb, hne⟩
      · exact ⟨hzb, hza, Ne.symm hne⟩
    · simp at hk
  intro k hk
  unfold faceEnds at hk
  simp only [List.mem_append] at hk
  rcases hk with (hk | hk) | hk
  · exact one f.1 f.2.1 hf.1 k hk
  · exact one f.2.1 f.2.2 hf.2.1 k hk
  · exact one f.2.2 f.1 hf.2.2 k hk

/-- a legitimate key's point is within the threshold of the plane -/
theorem keyOK_near_plane (P : Plane3 F) (eps : F) (he : 0 ≤ eps) (verts : List (V3 F)) (k : SecKey)
    (hk : KeyOK (distOf P eps verts) verts.length k) :
    |P.signedDistance (keyPoint verts (distOf P eps verts) k)| ≤ eps := by
  cases k with
  | vertex i => exact keyPoint_vertex_near_plane P eps he verts i hk.1 hk.2
  | edge i j =>
    rw [keyPoint_edge_on_plane P eps verts i j hk.1 hk.2.1 hk.2.2, abs_zero]
    exact he

/-- all keys of a state are legitimate -/
def KeysOK (dist : List F) (nverts : Nat) (s : SecState F) : Prop := ∀ k ∈ s.keys, KeyOK dist nverts k

theorem intern_keysOK (verts : List (V3 F)) (dist : List F) (n : Nat) (s : SecState F) (k : SecKey)
    (h : KeysOK dist n s) (hk : KeyOK dist n k) : KeysOK dist n (s.intern verts dist k).1 := by
  unfold SecState.intern
  cases findKey k s.keys 0 with
  | some i => exact h
  | none =>
    intro kk hkk
    simp only [List.mem_append, List.mem_singleton] at hkk
    rcases hkk with hkk | rfl
    · exact h kk hkk
    · exact hk

theorem sectionFace_keysOK (P : Plane3 F) (verts : List (V3 F)) (dist : List F) (faces : List (Nat × Nat × Nat))
    (s : SecState F) (f : Nat × Nat × Nat) (hf : f.1 < verts.length ∧ f.2.1 < verts.length ∧ f.2.2 < verts.length)
    (h : KeysOK dist verts.length s) : KeysOK dist verts.length (sectionFace P verts dist faces s f) := by
  unfold sectionFace
  dsimp only
  split_ifs
  · exact h
  · exact h
  · split
    · rename_i k0 k1 heq
      have hok := faceEnds_ok dist verts.length f hf
      rw [heq] at hok
      have h1 := intern_keysOK verts dist verts.length s k0 h (hok k0 (by simp))
      have h2 := intern_keysOK verts dist verts.length _ k1 h1 (hok k1 (by simp))
      intro kk hkk
      exact h2 kk hkk
    · exact h

theorem sections_keysOK (P : Plane3 F) (verts : List (V3 F)) (dist : List F) (all : List (Nat × Nat × Nat)) :
    ∀ (faces : List (Nat × Nat × Nat)) (s : SecState F),
      (∀ f ∈ faces, f.1 < verts.length ∧ f.2.1 < verts.length ∧ f.2.2 < verts.length) →
      KeysOK dist verts.length s → KeysOK dist verts.length (faces.foldl (sectionFace P verts dist all) s)
  | [], s, _, h => h
  | f :: r, s, hf, h =>
    sections_keysOK P verts dist all r _ (fun g hg => hf g (List.mem_cons_of_mem _ hg))
      (sectionFace_keysOK P verts dist all s f (hf f List.mem_cons_self) h)

/-- **Every section point — hence every vertex of every curve `Mesh::section` returns — is within
    the on-plane threshold of the plane**, for every mesh whose faces index its vertex list (open or
    closed, any winding, non-manifold) and every plane. -/
theorem section_points_near_plane (P : Plane3 F) (eps : F) (he : 0 ≤ eps) (verts : List (V3 F))
    (faces : List (Nat × Nat × Nat))
    (hf : ∀ f ∈ faces, f.1 < verts.length ∧ f.2.1 < verts.length ∧ f.2.2 < verts.length) :
    ∀ p ∈ (planeCrossingSegments P eps verts faces).1, |P.signedDistance p| ≤ eps := by
  have h0 : SecInv verts (distOf P eps verts) (⟨[], [], []⟩ : SecState F) := ⟨rfl, by simp, by simp⟩
  have hi := sections_inv P verts (distOf P eps verts) faces faces _ h0
  have hk := sections_keysOK P verts (distOf P eps verts) faces faces ⟨[], [], []⟩ hf (by intro k hk; exact absurd hk (List.not_mem_nil))
  intro p hp
  change p ∈ (faces.foldl (sectionFace P verts (distOf P eps verts) faces) ⟨[], [], []⟩).points at hp
  obtain ⟨i, hi', hpi⟩ := List.getElem_of_mem hp
  have hik : i < (faces.foldl (sectionFace P verts (distOf P eps verts) faces) ⟨[], [], []⟩).keys.length := by
    rw [← hi.len]; exact hi'
  have hkey := hi.pts i _ (List.getElem?_eq_getElem hik)
  rw [List.getElem?_eq_getElem hi'] at hkey
  simp only [Option.some.injEq] at hkey
  rw [← hpi, hkey]
  exact keyOK_near_plane P eps he verts _ (hk _ (List.getElem_mem hik))

/-! non-vacuity: the unit square split in two triangles, cut by the plane x = 1/2 -/
example : (planeCrossingSegments (⟨⟨1, 0, 0⟩, 1 / 2⟩ : Plane3 ℚ) (1 / 1000000)
    [⟨0, 0, 0⟩, ⟨1, 0, 0⟩, ⟨1, 1, 0⟩, ⟨0, 1, 0⟩] [(0, 1, 2), (0, 2, 3)]).2.length = 2 := by decide +kernel

end C13
