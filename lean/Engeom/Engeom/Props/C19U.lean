import Engeom.Props.C19B
import Engeom.Props.C03
import Engeom.Props.C19T
/-
  C19 — the plane theorems stated about the REGENERATED functions of src/geom3/plane3.rs (over ℝ): each is a
  theorem of Props/C19B or Props/C03 about the model function, carried over by the equality of Props/C19T.
-/
namespace C19U

/-- a plane built from three points contains all three -/
theorem from_three_points_contains_them (p1 p2 p3 : V3 ℝ) :
    let P := GenRs.Plane3_from_three_points p1 p2 p3
    GenRs.Plane3_signed_distance_to_point P p1 = 0 ∧ GenRs.Plane3_signed_distance_to_point P p2 = 0 ∧
    GenRs.Plane3_signed_distance_to_point P p3 = 0 := by
  intro P
  have hP : P = Plane3.ofThreePoints p1 p2 p3 := C19T.Plane3_from_three_points_eq p1 p2 p3
  rw [hP, C19T.Plane3_signed_distance_eq, C19T.Plane3_signed_distance_eq, C19T.Plane3_signed_distance_eq]
  exact C19.plane_contains_three p1 p2 p3

/-- … with a unit normal following the right-hand rule, unless the points are collinear -/
theorem from_three_points_unit_normal (p1 p2 p3 : V3 ℝ) (hN : Plane3.rawNormal3 p1 p2 p3 ≠ ⟨0, 0, 0⟩) :
    let P := GenRs.Plane3_from_three_points p1 p2 p3
    V3.dot P.normal P.normal = 1 ∧ 0 < V3.dot P.normal (Plane3.rawNormal3 p1 p2 p3) := by
  intro P
  have hP : P = Plane3.ofThreePoints p1 p2 p3 := C19T.Plane3_from_three_points_eq p1 p2 p3
  rw [hP]
  exact C19.plane_three_unit_normal p1 p2 p3 hN

/-- a plane built from a normal and a point contains the point -/
theorem from_normal_point_contains_point (n p : V3 ℝ) :
    GenRs.Plane3_signed_distance_to_point (GenRs.Plane3_from_normal_point n p) p = 0 := by
  rw [C19T.Plane3_from_normal_point_eq, C19T.Plane3_signed_distance_eq]
  exact C19.plane_contains_point n p

/-- a point of the plane projects to itself; every projection lies on the plane and projecting twice changes nothing -/
theorem project_fixes_points_of_the_plane (P : Plane3 ℝ) (q : V3 ℝ) (h : GenRs.Plane3_signed_distance_to_point P q = 0) :
    GenRs.Plane3_project_point P q = q := by
  rw [C19T.Plane3_signed_distance_eq] at h
  rw [C19T.Plane3_project_point_eq]
  exact C19.plane_project_fixed P q h

theorem projection_lies_on_the_plane (P : Plane3 ℝ) (hn : V3.dot P.normal P.normal = 1) (q : V3 ℝ) :
    GenRs.Plane3_signed_distance_to_point P (GenRs.Plane3_project_point P q) = 0 := by
  rw [C19T.Plane3_project_point_eq, C19T.Plane3_signed_distance_eq]
  exact C03.plane_project_on_plane P hn q

/-- inverting the normal flips the signed distance -/
theorem inverted_normal_flips_signed_distance (P : Plane3 ℝ) (q : V3 ℝ) :
    GenRs.Plane3_signed_distance_to_point (GenRs.Plane3_inverted_normal P) q
      = -GenRs.Plane3_signed_distance_to_point P q := by
  rw [C19T.Plane3_inverted_normal_eq, C19T.Plane3_signed_distance_eq, C19T.Plane3_signed_distance_eq]
  exact C03.plane_inverted_flips P q
end C19U
