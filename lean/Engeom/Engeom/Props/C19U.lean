import Engeom.Props.C19B
import Engeom.Props.C03
import Engeom.Props.C19T
/-
  C19 — the plane theorems stated about the REGENERATED functions of src/geom3/plane3.rs (over ℝ): each is a
  theorem of Props/C19B or Props/C03 about the model function, carried over by the equality of Props/C19T.
-/
namespace C19U

/-- a plane built from three points contains all three -/
theorem from_three_points_contains_them (p1 p2 p3 : V3 ℝ) :
    let P := GenRs.Plane3_from_three_points p1 p2 p3
    GenRs.Plane3_signed_distance_to_point P p1 = 0 ∧ GenRs.Plane3_signed_distance_to_point P p2 = 0 ∧
    GenRs.Plane3_signed_distance_to_point P p3 = 0 := by
  intro P
  have hP : P = Plane3.ofThreePoints p1 p2 p3 := C19T.Plane3_from_three_points_eq p1 p2 p3
  rw [hP, C19T.Plane3_signed_distance_eq, C19T.Plane3_signed_distance_eq, C19T.Plane3_signed_distance_eq]
  exact C19.plane_contains_three p1 p2 p3

/-- … with a unit normal following the right-hand rule, unless the points are collinear -/
theorem from_three_points_unit_normal (p1 p2 p3 : V3 ℝ) (hN : Plane3.rawNormal3 p1 p2 p3 ≠ ⟨0, 0, 0⟩) :
    let P := GenRs.Plane3_from_three_points p1 p2 p3
    V3.dot P.normal P.normal = 1 ∧ 0 < V3.dot P.normal (Plane3.rawNormal3 p1 p2 p3) := by
  intro P
  have hP : P = Plane3.ofThreePoints p1 p2 p3 := C19T.Plane3_from_three_points_eq p1 p2 p3
  rw [hP]
  exact C19.plane_three_unit_normal p1 p2 p3 hN

/-- a plane built from a normal and a point contains the point -/
theorem from_normal_point_contains_point (n p : V3 ℝ) :
    GenRs.Plane3_signed_distance_to_point (GenRs.Plane3_from_normal_point n p) p = 0 := by
  rw [C19T.Plane3_from_normal_point_eq, C19T.Plane3_signed_distance_eq]
  exact C19.plane_contains_point n p

/-- a point of the plane projects to itself; every projection lies on the plane and projecting twice changes nothing -/
theorem project_fixes_points_of_the_plane (P : Plane3 ℝ) (q : V3 ℝ) (h : GenRs.Plane3_signed_distance_to_point P q = 0) :
    GenRs.Plane3_project_point P q = q := by
  rw [C19T.Plane3_signed_distance_eq] at h
  rw [C19T.Plane3_project_point_eq]
  exact C19.plane_project_fixed P q h

theorem projection_lies_on_the_plane (P : Plane3 ℝ) (hn : V3.dot P.normal P.normal = 1) (q : V3 ℝ) :
    GenRs.Plane3_signed_distance_to_point P (GenRs.Plane3_project_point P q) = 0 := by
  rw [C19T.Plane3_project_point_eq, C19T.Plane3_signed_distance_eq]
  exact C03.plane_project_on_plane P hn q

/-- inverting the normal flips the signed distance -/
theorem inverted_normal_flips_signed_distance (P : Plane3 ℝ) (q : V3 ℝ) :
    GenRs.Plane3_signed_distance_to_point (GenRs.Plane3_inverted_normal P) q
      = -GenRs.Plane3_signed_distance_to_point P q := by
  rw [C19T.Plane3_inverted_normal_eq, C19T.Plane3_signed_distance_eq, C19T.Plane3_signed_distance_eq]
  exact C03.plane_inverted_flips P q
/-! ### the rows the weighted decomposition hands to the SVD (regenerated) -/

/-- one row per point — `w_i (p_i − c)` — whatever the weights: a point of tiny or zero weight still has its row, so
    the matrix has as many rows as the decomposition reports points -/
theorem weighted_rows_one_per_point (pts : List (V3 ℝ)) (w : List ℝ) (c : V3 ℝ) (h : pts.length = w.length) :
    (GenRs.svd_weighted_rows pts w c).length = pts.length := by
  unfold GenRs.svd_weighted_rows
  simp [h]

/-- scaling every weight by the same factor scales every row by it (the SVD of `k·A` has the basis of `A` and `|k|`
    times its singular values: the "unchanged by uniformly scaling all weights" clause, at the level of the rows) -/
theorem weighted_rows_scale (pts : List (V3 ℝ)) (w : List ℝ) (c : V3 ℝ) (k : ℝ) :
    GenRs.svd_weighted_rows pts (w.map (k * ·)) c = (GenRs.svd_weighted_rows pts w c).map (V3.smul k) := by
  unfold GenRs.svd_weighted_rows
  induction pts generalizing w with
  | nil => simp
  | cons p ps ih =>
    cases w with
    | nil => simp
    | cons x xs =>
      simp only [List.map_cons, List.zip_cons_cons, List.cons.injEq]
      refine ⟨?_, ih xs⟩
      simp only [V3.smul, V3.sub, V3.mk.injEq]
      refine ⟨by ring, by ring, by ring⟩

/-! ### `SvdBasis::rank` (the regenerated counting loop, for any number of singular values) -/

theorem svd_rank_foldl (sv : List ℝ) (tol : ℝ) (acc : Nat) :
    List.foldl (fun rank s => (let rank := (if tol < s then (let rank := (rank + 1); rank) else rank); rank)) acc sv
      = acc + (sv.filter (fun s => decide (tol < s))).length := by
  induction sv generalizing acc with
  | nil => simp
  | cons s t ih =>
    simp only [List.foldl_cons, List.filter_cons]
    by_cases h : tol < s
    · simp only [h, if_true, decide_true, List.length_cons]
      rw [ih]; omega
    · simp only [h, if_false, decide_false]
      rw [ih]; simp

/-- the rank is the number of singular values strictly above the tolerance ("the largest value that a singular
    value can have and still be considered zero": a value equal to it is not counted) -/
theorem rank_counts_values_above_tol (sv : List ℝ) (tol : ℝ) :
    GenRs.svd_rank sv tol = (sv.filter (fun s => decide (tol < s))).length := by
  unfold GenRs.svd_rank
  simp only []
  rw [svd_rank_foldl]; simp

/-- never more than the number of singular values -/
theorem rank_le_count (sv : List ℝ) (tol : ℝ) : GenRs.svd_rank sv tol ≤ sv.length := by
  rw [rank_counts_values_above_tol]; exact List.length_filter_le _ _

/-- a larger tolerance never gives a larger rank -/
theorem rank_antitone (sv : List ℝ) {t t' : ℝ} (h : t ≤ t') : GenRs.svd_rank sv t' ≤ GenRs.svd_rank sv t := by
  rw [rank_counts_values_above_tol, rank_counts_values_above_tol]
  induction sv with
  | nil => simp
  | cons s r ih =>
    simp only [List.filter_cons]
    by_cases h1 : t' < s
    · have h2 : t < s := lt_of_le_of_lt h h1
      simp only [h1, h2, decide_true, if_true, List.length_cons]; omega
    · by_cases h2 : t < s
      · simp only [h1, h2, decide_true, decide_false, if_true, List.length_cons]
        simp; omega
      · simp only [h1, h2, decide_false]; simpa using ih

/-- and a tolerance at or above every singular value gives rank 0 -/
theorem rank_zero_of_all_le (sv : List ℝ) (tol : ℝ) (h : ∀ s ∈ sv, s ≤ tol) : GenRs.svd_rank sv tol = 0 := by
  rw [rank_counts_values_above_tol]
  simp only [List.length_eq_zero_iff, List.filter_eq_nil_iff, decide_eq_true_eq, not_lt]
  exact h

example : GenRs.svd_rank [3, 2, (0 : ℝ)] 2 = 1 := by
  rw [rank_counts_values_above_tol]; norm_num [List.filter]

end C19U
