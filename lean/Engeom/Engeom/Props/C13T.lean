import Engeom.Generated.RsC13
/-
  C13 — translation tie.  Regenerated from `Mesh::plane_crossing_segments` (src/geom3/mesh/queries.rs)
  on every run: the table of signed distances with its snap to zero (`|d| <= eps`), and the section
  point on a crossed edge (`pi + (pj - pi) * (di / (di - dj))`).  They are the model's `distOf` and the
  edge case of `keyPoint`, on which `section_points_near_plane` and the other theorems of Props/C13S
  rest — for every scalar type.
-/
namespace C13T
set_option linter.unusedSectionVars false
variable {α : Type} [Add α] [Sub α] [Mul α] [Div α] [Neg α] [LT α] [LE α]
  [DecidableLT α] [DecidableLE α] [OfNat α 0] [OfNat α 1] [OfNat α 2] [Scalar α]

theorem section_dist_eq (P : Plane3 α) (eps : α) (verts : List (V3 α)) :
    GenRs.section_dist verts P eps = distOf P eps verts := rfl

theorem section_edge_point_eq (verts : List (V3 α)) (dist : List α) (i j : Nat) :
    keyPoint verts dist (.edge i j)
      = GenRs.section_edge_point (verts.getD i ⟨0, 0, 0⟩) (verts.getD j ⟨0, 0, 0⟩) (dist.getD i 0) (dist.getD j 0) := rfl
end C13T
