import Engeom.Generated.RsC04
/-
  C04 — translation tie.  Regenerated from src/geom2/curve2.rs on every run: the whole of
  `Curve2::between_lengths_by_control` (operator precedence of its second test included), and from
  `Curve2::between_lengths` the `last_index` rule and the ill-posed-request test.  The model's
  `betweenByControl` IS the regenerated function, and the model's `betweenRaw` is restated with the
  regenerated pieces in place of its own (`rfl`: no algebraic law, every scalar type).
-/
namespace C04T
set_option linter.unusedSectionVars false
variable {α : Type} [Add α] [Sub α] [Mul α] [Div α] [Neg α] [LT α] [LE α]
  [DecidableLT α] [DecidableLE α] [OfNat α 0] [OfNat α 1] [OfNat α 2] [Scalar α]
  [Inhabited α] [Inhabited (V2 α)] [Inhabited (V3 α)]

theorem between_by_control_eq (c : Curve α (V2 α)) (a b ctl : α) :
    GenRs.between_lengths_by_control c a b ctl = c.betweenByControl a b ctl := rfl

/-- the ill-posed-request test of the model's `betweenRaw` is the regenerated one -/
theorem between_ill_posed_eq (c : Curve α (V2 α)) (l0 l1 : α) (wrap : Bool) :
    GenRs.between_ill_posed c l0 l1 wrap = c.betweenIllPosed l0 l1 wrap := rfl

/-- the last index the walk of the model's `betweenRaw` may visit is the regenerated one -/
theorem between_last_index_eq (c : Curve α (V2 α)) :
    GenRs.between_last_index c = c.betweenLastIndex := rfl

/-- `trim_front(l)` is the portion from `l` to the end, `trim_back(l)` the portion from the start to `L - l` -/
theorem trim_front_eq (c : Curve α (V2 α)) (l : α) : GenRs.trim_front c l = c.between l c.length := rfl
theorem trim_back_eq (c : Curve α (V2 α)) (l : α) : GenRs.trim_back c l = c.between 0 (c.length - l) := rfl

/-- `Curve2::reversed` rebuilds the curve from its reversed vertices through `from_points` (so that its
    table of cumulative lengths is computed afresh); the model keeps the `Option` the Rust code unwraps -/
theorem reversed_eq (c : Curve α (V2 α)) (hb : c.blend = true) : GenRs.reversed c = c.reversed := by
  unfold GenRs.reversed Curve.reversed
  rw [hb]
end C04T
