import Engeom.Model.Curve
import Engeom.Lemmas.RealScalar
import Mathlib.Tactic.Linarith
import Mathlib.Tactic.FieldSimp
import Mathlib.Tactic.Ring
import Mathlib.Tactic.Positivity
import Mathlib.Algebra.Order.Floor.Semiring
/-
  C05 — Resampling, simplifying and gap filling stay on the curve and cover it all.
  The positions handed to `at_length` decide whether a resampled curve spans the original; the
  distance used by Ramer–Douglas–Peucker decides what may be discarded; the gap count decides the
  largest remaining gap.  Those three are what is proved here (at ℝ).
-/

namespace C05

/-! ### resample by count -/

/-- For `n ≥ 2` the positions are `n` lengths from exactly `0` to exactly `L`, all inside
    `[0, L]` — so every `at_length` succeeds and the result spans the original. -/
theorem byCount_positions (L : ℝ) (hL : 0 ≤ L) (n : Nat) (hn : 2 ≤ n) :
    (positionsByCount (fun i : Nat => (i : ℝ)) L n).length = n ∧
    (positionsByCount (fun i : Nat => (i : ℝ)) L n).head? = some 0 ∧
    (positionsByCount (fun i : Nat => (i : ℝ)) L n).getLast? = some L ∧
    ∀ p ∈ positionsByCount (fun i : Nat => (i : ℝ)) L n, 0 ≤ p ∧ p ≤ L := by
  have hn1 : (0 : ℝ) < ((n - 1 : Nat) : ℝ) := by
    have : 0 < n - 1 := by omega
    exact_mod_cast this
  obtain ⟨m, rfl⟩ : ∃ m, n = m + 1 := ⟨n - 1, by omega⟩
  have hm : ((m + 1 - 1 : Nat) : ℝ) = (m : ℝ) := by simp
  refine ⟨by simp [positionsByCount], ?_, ?_, ?_⟩
  · simp [positionsByCount, List.range_succ_eq_map]
  · simp only [positionsByCount, List.range_succ, List.map_append, List.map_cons, List.map_nil]
    rw [List.getLast?_append]
    simp only [List.getLast?_singleton, Option.some_or, Option.some.injEq, hm]
    have : (m : ℝ) ≠ 0 := by rw [← hm]; exact hn1.ne'
    field_simp
  · intro p hp
    simp only [positionsByCount, List.mem_map, List.mem_range] at hp
    obtain ⟨i, hi, rfl⟩ := hp
    have hi' : (i : ℝ) ≤ ((m + 1 - 1 : Nat) : ℝ) := by rw [hm]; exact_mod_cast (by omega : i ≤ m)
    have hq0 : 0 ≤ (i : ℝ) / ((m + 1 - 1 : Nat) : ℝ) := div_nonneg (by positivity) hn1.le
    have hq1 : (i : ℝ) / ((m + 1 - 1 : Nat) : ℝ) ≤ 1 := by rw [div_le_one hn1]; exact hi'
    constructor
    · exact mul_nonneg hq0 hL
    · nlinarith

/-- Regression witness for the defect fixed in /repo (D1): the 2-D code used the fractions as
    lengths — on a curve of length 15 the last position was 1, not 15. -/
theorem byCount_prefix_counterexample :
    (positionsByCount_prefix (fun i : Nat => (i : ℝ)) 3).getLast? = some 1 ∧
    (positionsByCount (fun i : Nat => (i : ℝ)) 15 3).getLast? = some 15 := by
  constructor <;> norm_num [positionsByCount_prefix, positionsByCount, List.range_succ]

/-! ### resample by maximum spacing -/

/-- With `n = ⌈L / m⌉ + 1` points (at least 2) the spacing `L / (n − 1)` does not exceed `m`. -/
theorem byMaxSpacing_spacing_le (L m : ℝ) (hL : 0 < L) (hm : 0 < m) :
    let n := max 2 (⌈L / m⌉₊ + 1)
    L / ((n - 1 : Nat) : ℝ) ≤ m := by
  intro n
  have hc : L / m ≤ (⌈L / m⌉₊ : ℝ) := Nat.le_ceil _
  have hn : ⌈L / m⌉₊ ≤ n - 1 := by
    have : ⌈L / m⌉₊ + 1 ≤ n := le_max_right _ _
    omega
  have hpos : 0 < ⌈L / m⌉₊ := Nat.ceil_pos.mpr (div_pos hL hm)
  have hn' : (⌈L / m⌉₊ : ℝ) ≤ ((n - 1 : Nat) : ℝ) := by exact_mod_cast hn
  have hnpos : (0 : ℝ) < ((n - 1 : Nat) : ℝ) := lt_of_lt_of_le (by exact_mod_cast hpos) hn'
  rw [div_le_iff₀ hnpos]
  have : L ≤ m * (⌈L / m⌉₊ : ℝ) := by
    have := (div_le_iff₀ hm).mp hc
    linarith
  nlinarith

/-- Regression witness (D2): with only `⌈L / m⌉` points, `L = 10`, `m = 3` gives spacing
    `10 / 3 > 3`. -/
theorem byMaxSpacing_prefix_counterexample : (10 : ℝ) / ((⌈(10 : ℝ) / 3⌉₊ - 1 : Nat) : ℝ) > 3 := by
  have h : ⌈(10 : ℝ) / 3⌉₊ = 4 := by
    rw [Nat.ceil_eq_iff (by norm_num)]; norm_num
  rw [h]; norm_num

/-! ### resample by spacing: centred -/

/-- After centring, the margin before the first sample equals the margin after the last one. -/
theorem centred_equal_margins (L : ℝ) (ps : List ℝ) (last : ℝ) (h0 : ps.head? = some 0)
    (hl : ps.getLast? = some last) :
    (centred L ps).head? = some ((L - last) / 2) ∧
    (centred L ps).getLast? = some (L - (L - last) / 2) := by
  unfold centred
  simp only [hl]
  constructor
  · rw [List.head?_map, h0]; simp
  · rw [List.getLast?_map, hl]; simp only [Option.map_some, Option.some.injEq]; ring

/-- the un-centred positions `0, s, 2s, …` stop with the last one less than one spacing from `L` -/
theorem positionsBySpacing_spec (L s : ℝ) (hs : 0 < s) :
    ∀ (fuel : Nat) (cur : ℝ) (acc : List ℝ), cur < L → L ≤ cur + fuel * s →
      ∃ last, (positionsBySpacing L s fuel cur acc).getLast? = some last ∧ last < L ∧ L ≤ last + s
  | 0, cur, acc, h1, h2 => by simp at h2; linarith
  | fuel + 1, cur, acc, h1, h2 => by
    unfold positionsBySpacing
    rw [if_pos h1]
    by_cases hnext : cur + s < L
    · exact positionsBySpacing_spec L s hs fuel (cur + s) _ hnext (by push_cast at h2; linarith)
    · cases fuel with
      | zero => exact ⟨cur, by simp [positionsBySpacing], h1, not_lt.mp hnext⟩
      | succ k =>
        refine ⟨cur, ?_, h1, not_lt.mp hnext⟩
        unfold positionsBySpacing
        rw [if_neg hnext]; simp

/-- …hence both (equal) margins are at most half a spacing: "smaller than one spacing". -/
theorem bySpacing_margin_lt (L s last : ℝ) (hs : 0 < s) (h1 : last < L) (h2 : L ≤ last + s) :
    0 < (L - last) / 2 ∧ (L - last) / 2 < s := by
  constructor <;> linarith

/-! ### Ramer–Douglas–Peucker: distance to the SEGMENT -/

theorem sqrt_sq_nonneg {x : ℝ} (hx : 0 ≤ x) : Real.sqrt (x * x) = x := Real.sqrt_mul_self hx

/-- Regression witness (D3b): the vertex (5,0) is ON the infinite line through (0,0)–(1,0) but
    4 away from the segment; the pre-fix code discarded it for any tolerance. -/
theorem rdp_line_counterexample :
    lineDist (⟨0, 0⟩ : V2 ℝ) ⟨1, 0⟩ ⟨5, 0⟩ = 0 ∧ segDist (⟨0, 0⟩ : V2 ℝ) ⟨1, 0⟩ ⟨5, 0⟩ = 4 := by
  constructor
  · simp only [lineDist, vnormalize, vnorm, VecLike.sub, VecLike.add, VecLike.smul, VecLike.dot,
      V2.sub, V2.add, V2.smul, V2.dot, sqrtR]
    norm_num
  · simp only [segDist, vnorm, VecLike.sub, VecLike.smul, VecLike.dot, V2.sub, V2.smul, V2.dot, sqrtR,
      smax, smin]
    norm_num
    rw [show (16 : ℝ) = 4 * 4 by norm_num]
    exact sqrt_sq_nonneg (by norm_num)

/-- Regression witness (D3): for coincident end points (a closed ring) the line direction is
    0/0; the segment distance is simply the distance to that point. -/
theorem segDist_coincident_ends (a p : V2 ℝ) : segDist a a p = vdist p a := by
  have h : ¬ (0 : ℝ) < VecLike.dot (VecLike.sub a a) (VecLike.sub a a) := by
    show ¬ (0 : ℝ) < V2.dot (V2.sub a a) (V2.sub a a)
    simp [V2.dot, V2.sub]
  unfold segDist
  dsimp only
  rw [if_neg h]
  simp only [vdist, vnorm, VecLike.sub, VecLike.smul, VecLike.dot, V2.sub, V2.smul, V2.dot, sqrtR]
  congr 1; ring

/-- The simplified point list always starts and ends with the original end points. -/
theorem rdp_keeps_ends (pts : List (V2 ℝ)) (tol : ℝ) (h : 2 ≤ pts.length) [Inhabited (V2 ℝ)] :
    (rdp pts tol).head? = pts.head? ∧ (rdp pts tol).getLast? = pts.getLast? := by
  unfold rdp
  rw [if_neg (by omega)]
  constructor
  · simp only [List.cons_append, List.nil_append, List.map_cons, List.head?_cons]
    cases pts with
    | nil => simp at h
    | cons a r => simp
  · simp only [List.map_append, List.map_cons, List.map_nil]
    rw [List.getLast?_append]
    simp only [List.getLast?_singleton, Option.some_or]
    rw [List.getLast?_eq_getElem?]
    have : pts.length - 1 < pts.length := by omega
    simp [List.getD, List.getElem?_eq_getElem this]

/-! ### gap filling -/

/-- The number of inserted points is the first `n ≥ 1` with `d / (n + 1) ≤ max`: the remaining gaps
    are within the maximum, and no smaller count would do (given enough fuel). -/
theorem gapCount_spec (d maxd : ℝ) :
    ∀ (fuel n : Nat), (maxd < d / ((n : ℝ) + 1) → ∃ k, k ≤ fuel ∧ d / (((n + k : Nat) : ℝ) + 1) ≤ maxd) →
      d / (((gapCount (fun i : Nat => (i : ℝ)) d maxd fuel n : Nat) : ℝ) + 1) ≤ maxd ∧
      ∀ j, n ≤ j → j < gapCount (fun i : Nat => (i : ℝ)) d maxd fuel n → maxd < d / ((j : ℝ) + 1)
  | 0, n, h => by
    simp only [gapCount]
    refine ⟨?_, fun j h1 h2 => by omega⟩
    by_contra hc
    obtain ⟨k, hk, hk2⟩ := h (not_le.mp hc)
    have : k = 0 := by omega
    subst this
    exact hc (by simpa using hk2)
  | fuel + 1, n, h => by
    unfold gapCount
    have hcast : ((n + 1 : Nat) : ℝ) = (n : ℝ) + 1 := by push_cast; ring
    by_cases hgt : maxd < d / ((n : ℝ) + 1)
    · have hif : maxd < d / ((fun i : Nat => (i : ℝ)) (n + 1)) := by simpa [hcast] using hgt
      rw [if_pos hif]
      have ih := gapCount_spec d maxd fuel (n + 1) (by
        intro h'
        obtain ⟨k, hk, hk2⟩ := h hgt
        cases k with
        | zero => exact absurd (by simpa using hk2) (not_le.mpr hgt)
        | succ k => exact ⟨k, by omega, by rw [show n + 1 + k = n + (k + 1) by omega]; exact hk2⟩)
      refine ⟨ih.1, fun j h1 h2 => ?_⟩
      rcases Nat.eq_or_lt_of_le h1 with rfl | hlt
      · exact hgt
      · exact ih.2 j (by omega) h2
    · have hif : ¬ maxd < d / ((fun i : Nat => (i : ℝ)) (n + 1)) := by simpa [hcast] using hgt
      rw [if_neg hif]
      exact ⟨not_lt.mp hgt, fun j h1 h2 => by omega⟩

/-! non-vacuity -/
example : (positionsByCount (fun i : Nat => (i : ℝ)) 10 3) = [0, 5, 10] := by
  norm_num [positionsByCount, List.range_succ]

end C05
