import Engeom.Model.Fit
import Engeom.Lemmas.Basics
import Mathlib.Algebra.BigOperators.Group.Finset.Basic
import Mathlib.Algebra.BigOperators.Ring.Finset
import Mathlib.Algebra.BigOperators.Fin
import Mathlib.Algebra.Order.BigOperators.Ring.Finset
import Mathlib.Tactic.Ring
import Mathlib.Tactic.Linarith
import Mathlib.Tactic.FieldSimp
import Mathlib.Data.Rat.Defs
/-
  C09 — Least-squares fits are optimal.
  (a) the power sums accumulated by the code are complete — an obligation on the loop bound that is
      REGENERATED from src/func1/polynomial.rs on every run;
  (b)–(d) for data indexed by `Fin n` over any ordered field: a solution of the normal equations
      has a residual orthogonal to every monomial, hence minimises the weighted sum of squares
      over all coefficient vectors; exact data satisfy the normal equations;
  (e) the closed form of `Series1::best_fit_line` solves the degree-1 normal equations.
  Partial: convergence of the Levenberg–Marquardt circle fit and the RANSAC draw are validated per
  result by the correspondence run, not proved.
-/

namespace C09

variable {F : Type} [Field F] [LinearOrder F] [IsStrictOrderedRing F]

/-! ### (a) completeness of the accumulated power sums -/

/-- Every power sum the Hankel matrix reads (`r + c ≤ 2K − 2`) is actually accumulated: with the
    regenerated loop bound no index is skipped. -/
theorem powerSums_complete (K : Nat) (xs ws : List F) (k : Nat) (_hk : k ≤ 2 * K - 2) :
    powerSums K xs ws k = (List.zipWith (fun x w => w * spow x k) xs ws).foldl (· + ·) 0 := by
  unfold powerSums powerSumsAcc
  have h : (decide (k < K) || decide (K + Gen.polySkipOffset ≤ k)) = true := by
    have : Gen.polySkipOffset = 0 := by decide
    rw [this]
    simp only [Nat.add_zero, Bool.or_eq_true, decide_eq_true_eq]
    omega
  rw [if_pos h]

/-- Regression witness for the defect fixed in /repo (D11): with the pre-fix bound `skip(K + 1)`
    the sum of order `K` stays 0 — for a line fit (`K = 2`) on `x = 1, 2` the entry `Σ x² = 5` of
    the normal matrix was read as 0. -/
theorem sums_missing_K_prefix :
    powerSumsAcc 2 1 ([1, 2] : List ℚ) [1, 1] 2 = 0 ∧ powerSumsAcc 2 0 ([1, 2] : List ℚ) [1, 1] 2 = 5 := by
  constructor <;> norm_num [powerSumsAcc, spow]

/-! ### (b)–(d) the normal equations characterise the minimiser -/

section Normal
variable {n K : Nat} (x y w : Fin n → F)

/-- value of the polynomial with coefficients `c` at `t` -/
def pval (c : Fin K → F) (t : F) : F := ∑ j : Fin K, c j * t ^ (j : Nat)

/-- weighted sum of squared residuals -/
def ssq (c : Fin K → F) : F := ∑ i : Fin n, w i * (pval c (x i) - y i) ^ 2

/-- the normal equations `M c = b` with `M r j = Σ w x^(r+j)`, `b r = Σ w x^r y` -/
def NormalEq (c : Fin K → F) : Prop :=
  ∀ r : Fin K, ∑ j : Fin K, (∑ i : Fin n, w i * x i ^ ((r : Nat) + (j : Nat))) * c j = ∑ i : Fin n, w i * x i ^ (r : Nat) * y i

/-- A solution of the normal equations leaves a residual orthogonal, in the weighted inner
    product, to every monomial column. -/
theorem normal_eq_orthogonal (c : Fin K → F) (h : NormalEq x y w c) (r : Fin K) :
    ∑ i : Fin n, w i * x i ^ (r : Nat) * (pval c (x i) - y i) = 0 := by
  have hr := h r
  have e : ∑ i : Fin n, w i * x i ^ (r : Nat) * (pval c (x i) - y i) =
      ∑ j : Fin K, (∑ i : Fin n, w i * x i ^ ((r : Nat) + (j : Nat))) * c j - ∑ i : Fin n, w i * x i ^ (r : Nat) * y i := by
    simp only [pval, mul_sub, Finset.sum_sub_distrib, Finset.mul_sum, Finset.sum_mul]
    congr 1
    rw [Finset.sum_comm]
    refine Finset.sum_congr rfl (fun j _ => Finset.sum_congr rfl (fun i _ => ?_))
    rw [pow_add]; ring
  rw [e, hr, sub_self]

/-- … and therefore (non-negative weights) no other coefficient vector has a smaller weighted sum
    of squares. -/
theorem normal_eq_optimal (hw : ∀ i, 0 ≤ w i) (c c' : Fin K → F) (h : NormalEq x y w c) :
    ssq x y w c ≤ ssq x y w c' := by
  -- the difference polynomial is a combination of monomials: its weighted product with the
  -- residual vanishes
  have hcross : ∑ i : Fin n, w i * (pval c (x i) - y i) * (pval c' (x i) - pval c (x i)) = 0 := by
    have : ∀ i, w i * (pval c (x i) - y i) * (pval c' (x i) - pval c (x i)) =
        ∑ j : Fin K, (c' j - c j) * (w i * x i ^ (j : Nat) * (pval c (x i) - y i)) := by
      intro i
      have : pval c' (x i) - pval c (x i) = ∑ j : Fin K, (c' j - c j) * x i ^ (j : Nat) := by
        simp only [pval, ← Finset.sum_sub_distrib, sub_mul]
      rw [this, Finset.mul_sum]
      refine Finset.sum_congr rfl (fun j _ => by ring)
    simp only [this]
    rw [Finset.sum_comm]
    refine Finset.sum_eq_zero (fun j _ => ?_)
    rw [← Finset.mul_sum, normal_eq_orthogonal x y w c h j, mul_zero]
  have hexp : ssq x y w c' = ssq x y w c + 2 * ∑ i : Fin n, w i * (pval c (x i) - y i) * (pval c' (x i) - pval c (x i))
      + ∑ i : Fin n, w i * (pval c' (x i) - pval c (x i)) ^ 2 := by
    simp only [ssq, Finset.mul_sum, ← Finset.sum_add_distrib]
    refine Finset.sum_congr rfl (fun i _ => by ring)
  rw [hexp, hcross]
  have : 0 ≤ ∑ i : Fin n, w i * (pval c' (x i) - pval c (x i)) ^ 2 :=
    Finset.sum_nonneg (fun i _ => mul_nonneg (hw i) (sq_nonneg _))
  linarith

/-- Samples of an exact polynomial satisfy the normal equations with that polynomial's
    coefficients (so when the normal matrix is invertible the fit returns it). -/
theorem exact_data_solves (c : Fin K → F) (hy : ∀ i, y i = pval c (x i)) : NormalEq x y w c := by
  intro r
  simp only [hy, pval, Finset.mul_sum, Finset.sum_mul]
  rw [Finset.sum_comm]
  refine Finset.sum_congr rfl (fun i _ => Finset.sum_congr rfl (fun j _ => ?_))
  rw [pow_add]; ring

end Normal

/-! ### (e) the series best-fit line -/

/-- The closed form `m = (n Σxy − Σx Σy)/(n Σxx − (Σx)²)`, `b = (Σy − m Σx)/n` solves the two normal
    equations of the degree-1 fit (unit weights) whenever its denominators are non-zero. -/
theorem bestFitLine_normal_equations (n sx sy sxx sxy : F) (hn : n ≠ 0) (hd : n * sxx - sx * sx ≠ 0) :
    let m := (n * sxy - sx * sy) / (n * sxx - sx * sx)
    let b := (sy - m * sx) / n
    n * b + sx * m = sy ∧ sx * b + sxx * m = sxy := by
  intro m b
  have hm : m * (n * sxx - sx * sx) = n * sxy - sx * sy := div_mul_cancel₀ _ hd
  have hb : b * n = sy - m * sx := div_mul_cancel₀ _ hn
  constructor
  · linarith
  · have : (sx * b + sxx * m) * n = sxy * n := by
      calc (sx * b + sxx * m) * n = sx * (b * n) + m * (n * sxx) := by ring
        _ = sx * (sy - m * sx) + (m * (n * sxx - sx * sx) + m * (sx * sx)) := by rw [hb]; ring
        _ = sxy * n := by rw [hm]; ring
    exact mul_right_cancel₀ hn this

/-! non-vacuity: the line 2x + 1 on x = 0, 1, 2 -/
example : NormalEq (K := 2) (n := 3) (fun i => ((i : Nat) : ℚ)) (fun i => 2 * ((i : Nat) : ℚ) + 1) (fun _ => 1)
    (fun j => if (j : Nat) = 0 then 1 else 2) := by
  apply exact_data_solves
  intro i
  simp only [pval, Fin.sum_univ_two]
  norm_num
  ring

end C09
