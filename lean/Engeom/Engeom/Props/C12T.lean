import Engeom.Generated.RsC12
/-
  C12 — translation tie.  `chain_candidates` (src/common/indices.rs: the search, among the pairs not yet
  used, for THE pair that continues a chain — exactly one candidate, else none; shared by
  `chained_indices`, boundary extraction and `Mesh::section`) is regenerated from the /repo working tree
  on every run, its `for … in pairs.iter().enumerate()` loop included, and proved equal to the model's
  `chainCandidate` (every position in range, as `chained_indices` guarantees: the positions are a subset
  of `0 .. indices.len()`).
-/
namespace C12T

/-- a `for` loop that pushes the elements satisfying a test is a filter -/
theorem foldl_push_if {β : Type} (p : β → Prop) [DecidablePred p] (l : List β) (init : List β) :
    l.foldl (fun acc x => if p x then acc ++ [x] else acc) init = init ++ l.filter (fun x => decide (p x)) := by
  induction l generalizing init with
  | nil => simp
  | cons a r ih =>
    rw [List.foldl_cons, ih]
    by_cases h : p a
    · simp [h, List.filter_cons, List.append_assoc]
    · simp [h, List.filter_cons]

def swap (p : Nat × Nat) : Nat × Nat := (p.2, p.1)

/-- the two-element arrays `[u32; 2]` of the Rust code -/
def asArrays (idx : List Edge) : List (List Nat) := idx.map (fun e => [e.1, e.2])

theorem entry (idx : List Edge) (i : Nat) (h : i < idx.length) (fwd : Bool) :
    ((asArrays idx).getD i default).getD (if fwd then 0 else 1) default
      = (if fwd then (idx[i]).1 else (idx[i]).2) := by
  unfold asArrays
  have : (idx.map (fun e => [e.1, e.2])).getD i default = [(idx[i]).1, (idx[i]).2] := by
    simp [List.getD_eq_getElem?_getD, h]
  rw [this]
  cases fwd <;> rfl

theorem chain_candidates_eq (pairs : List Nat) (idx : List Edge) (v : Nat) (fwd : Bool)
    (hin : ∀ i ∈ pairs, i < idx.length) :
    GenRs.chain_candidates pairs (asArrays idx) v fwd = chainCandidate pairs idx v fwd := by
  unfold GenRs.chain_candidates chainCandidate
  -- the loop is a filter over the enumerated positions
  have hloop := foldl_push_if
    (fun (p : Nat × Nat) => ((asArrays idx).getD p.2 default).getD (if fwd then 0 else 1) default = v)
    (enumerateL pairs) []
  simp only [List.nil_append] at hloop
  have hfold : (List.foldl (fun candidates (x : Nat × Nat) =>
        match x with
        | (k, i) => if ((asArrays idx).getD i default).getD (if fwd = true then 0 else 1) default = v
            then candidates ++ [(k, i)] else candidates) [] (enumerateL pairs))
      = (enumerateL pairs).filter (fun p => decide (((asArrays idx).getD p.2 default).getD (if fwd then 0 else 1) default = v)) := by
    rw [← hloop]
  simp only [hfold]
  -- … which is the model's filter with the components swapped
  have hsw : (enumerateL pairs).filter (fun p => decide (((asArrays idx).getD p.2 default).getD (if fwd then 0 else 1) default = v))
      = ((pairs.zipIdx).filter (fun (p : Nat × Nat) =>
          match idx[p.1]? with
          | some e => (if fwd then e.1 else e.2) == v
          | none => false)).map swap := by
    unfold enumerateL
    rw [List.filter_map]
    congr 1
    apply List.filter_congr
    intro p hp
    have hp1 : p.1 ∈ pairs := by
      have := List.mem_zipIdx hp
      simpa using (List.mem_zipIdx' hp).2 ▸ List.getElem_mem _
    have hlt := hin p.1 hp1
    simp only [Function.comp]
    rw [entry idx p.1 hlt fwd]
    simp only [List.getElem?_eq_getElem hlt]
    rw [Bool.eq_iff_iff]
    simp
  rw [hsw]
  generalize ((pairs.zipIdx).filter _) = c
  match c with
  | [] => rfl
  | [(i, k)] => rfl
  | _ :: _ :: _ => simp [List.length_cons]
end C12T
