import Engeom.Model.Search
import Engeom.Lemmas.RealScalar
import Engeom.Props.C01
import Mathlib.Tactic.Linarith
import Mathlib.Tactic.Ring
/-
  C15 — Spatial search, sampling and hulls agree with exhaustive computation.
  Proved: engeom's own greedy / remap / sampling logic against the brute-force specification.
  Partial: the k-d tree (kiddo) and the convex hull (parry) are external and are compared with the
  specification on every run (see KNOWN_FINDINGS.txt for the k-d tree defect on point sets with
  shared coordinate values).
-/

namespace C15

/-! ### the Poisson-disk sweep -/

section Sweep
variable {β : Type} (w : β → β → Bool)

theorem sweepAux_subset : ∀ (k : Nat) (l : List β), ∀ x ∈ sweepAux w k l, x ∈ l
  | 0, _, x, h => by simp [sweepAux] at h
  | _ + 1, [], x, h => by simp [sweepAux] at h
  | k + 1, a :: r, x, h => by
    simp only [sweepAux, List.mem_cons] at h
    rcases h with rfl | h
    · exact List.mem_cons_self
    · have := sweepAux_subset k _ x h
      exact List.mem_cons_of_mem _ (List.mem_filter.mp this).1

/-- The selection is a subset of the working positions. -/
theorem sweep_subset (l : List β) : ∀ x ∈ sweep w l, x ∈ l := sweepAux_subset w _ l

/-- No kept element covers a later kept element: with a symmetric "within radius" relation no two
    kept points are within the radius of each other. -/
theorem sweepAux_separated : ∀ (k : Nat) (l : List β), (sweepAux w k l).Pairwise (fun a b => w a b = false)
  | 0, _ => by simp [sweepAux]
  | _ + 1, [] => by simp [sweepAux]
  | k + 1, a :: r => by
    simp only [sweepAux, List.pairwise_cons]
    refine ⟨?_, sweepAux_separated k _⟩
    intro b hb
    have := sweepAux_subset w k _ b hb
    simpa using (List.mem_filter.mp this).2

theorem sweep_separated (l : List β) : (sweep w l).Pairwise (fun a b => w a b = false) :=
  sweepAux_separated w _ l

/-- Every working element is either kept or covered by a kept one (for every visiting order =
    every order of the list). -/
theorem sweepAux_covering : ∀ (k : Nat) (l : List β), l.length ≤ k →
    ∀ x ∈ l, x ∈ sweepAux w k l ∨ ∃ a ∈ sweepAux w k l, w a x = true
  | 0, l, hk, x, hx => by
    have : l = [] := List.eq_nil_of_length_eq_zero (Nat.le_zero.mp hk)
    subst this; simp at hx
  | _ + 1, [], _, x, hx => by simp at hx
  | k + 1, a :: r, hk, x, hx => by
    simp only [sweepAux, List.mem_cons]
    rcases List.mem_cons.mp hx with rfl | hx
    · exact Or.inl (Or.inl rfl)
    · by_cases hc : w a x = true
      · exact Or.inr ⟨a, Or.inl rfl, hc⟩
      · have hmem : x ∈ r.filter (fun b => !w a b) := List.mem_filter.mpr ⟨hx, by simpa using hc⟩
        have hlen : (r.filter (fun b => !w a b)).length ≤ k :=
          (List.length_filter_le _ _).trans (by simpa using hk)
        rcases sweepAux_covering k _ hlen x hmem with h | ⟨c, hc1, hc2⟩
        · exact Or.inl (Or.inr h)
        · exact Or.inr ⟨c, Or.inr hc1, hc2⟩

theorem sweep_covering (l : List β) : ∀ x ∈ l, x ∈ sweep w l ∨ ∃ a ∈ sweep w l, w a x = true :=
  sweepAux_covering w _ l (le_refl _)

end Sweep

/-! ### brute-force nearest is minimal; the partial tree maps back to original indices -/

section Nearest
variable {F : Type} [Field F] [LinearOrder F] [IsStrictOrderedRing F] {P : Type} [VecLike P F]

theorem nearestOneAux_le_best (q : P) : ∀ (l : List P) (i : Nat) (b r : Nat × F),
    nearestOneAux q l i (some b) = some r → r.2 ≤ b.2
  | [], _, b, r, h => by simp [nearestOneAux] at h; rw [← h]
  | p :: l, i, b, r, h => by
    unfold nearestOneAux at h
    dsimp only at h
    split_ifs at h with hlt
    · exact (nearestOneAux_le_best q l (i + 1) _ r h).trans hlt.le
    · exact nearestOneAux_le_best q l (i + 1) b r h

/-- the reported squared distance is at most the squared distance of every point -/
theorem nearestOne_minimal (q : P) : ∀ (l : List P) (i : Nat) (best : Option (Nat × F)) (r : Nat × F),
    nearestOneAux q l i best = some r → ∀ p ∈ l, r.2 ≤ d2 p q
  | [], _, _, _, _ => by intro p hp; simp at hp
  | p0 :: l, i, best, r, h => by
    intro p hp
    unfold nearestOneAux at h
    dsimp only at h
    rcases List.mem_cons.mp hp with rfl | hp
    · cases best with
      | none => exact nearestOneAux_le_best q l (i + 1) _ r h
      | some b =>
        dsimp only at h
        split_ifs at h with hlt
        · exact nearestOneAux_le_best q l (i + 1) _ r h
        · exact (nearestOneAux_le_best q l (i + 1) b r h).trans (not_lt.mp hlt)
    · exact nearestOne_minimal q l (i + 1) _ r h p hp

end Nearest

/-- the sub-tree is built from `all[indices[m]]`, so a hit at position `m` of the sub-tree is the
    point with ORIGINAL index `indices[m]` -/
theorem partial_remap_correct {P : Type} [Inhabited P] (allPts : List P) (indices : List Nat) (m : Nat)
    (hm : m < indices.length) :
    (indices.map (fun i => allPts.getD i default)).getD m default = allPts.getD (indices.getD m 0) default := by
  simp [List.getD, hm]

/-! ### mesh sampling -/

/-- The barycentric weights of a uniform sample are non-negative and sum to one (so the sample lies
    on the triangle) for draws in [0, 1]. -/
theorem bary_weights (r1 r2 : ℝ) (h1 : 0 ≤ r1 ∧ r1 ≤ 1) (h2 : 0 ≤ r2 ∧ r2 ≤ 1) :
    let wt := baryWeights r1 r2
    0 ≤ wt.1 ∧ 0 ≤ wt.2.1 ∧ 0 ≤ wt.2.2 ∧ wt.1 + wt.2.1 + wt.2.2 = 1 := by
  intro wt
  have hs0 : 0 ≤ Real.sqrt r1 := Real.sqrt_nonneg _
  have hs1 : Real.sqrt r1 ≤ 1 := by
    rw [show (1 : ℝ) = Real.sqrt 1 by simp]; exact Real.sqrt_le_sqrt h1.2
  simp only [wt, baryWeights, sqrtR]
  refine ⟨by linarith, mul_nonneg hs0 (by linarith [h2.2]), mul_nonneg hs0 h2.1, by ring⟩

/-- Face `i` is picked exactly for draws in its interval `(cum[i−1], cum[i]]` of the cumulative
    areas, whose length is the face's area: faces are hit in proportion to area. -/
theorem facePick_interval (cum : List ℝ) (hs : cum.Pairwise (· < ·)) (r : ℝ) (i : Nat) (hi : i < cum.length)
    (h : facePick cum r = i) :
    (∀ j (hj : j < cum.length), j < i → cum[j] < r) ∧ r ≤ cum[i] := by
  obtain ⟨_, k2, k3⟩ := C01.countLt_spec cum hs r
  have e : facePick cum r = countLt cum r := rfl
  rw [e] at h
  rw [h] at k2 k3
  exact ⟨fun j hj hji => k2 j hj hji, k3 i hi (le_refl _)⟩

/-! non-vacuity: points 0,1,2,3 on a line with radius 1.5 (covering relation |a − b| < 2) -/
example : sweep (fun (a b : Nat) => decide (a ≤ b + 1 ∧ b ≤ a + 1)) [0, 1, 2, 3] = [0, 2] := by decide

end C15
