import Engeom.Props.C05
import Engeom.Props.C05T
import Engeom.Lemmas.RealScalar
/-
  C05 — theorems about the REGENERATED code (over ℝ), by composing the translation ties of Props/C05T with
  the theorems of Props/C05:
  * `resample_by_count` (2-D and 3-D) samples the curve at `n` lengths running from exactly `0` to exactly
    `L`, all inside `[0, L]` — the regenerated function IS `resampleAt` of such a list;
  * the counter loop of `fill_gaps` returns the first count for which the remaining steps are within the
    maximum (given enough iterations).
-/
namespace C05U

theorem ofNatS_real : (C05T.ofNatS : Nat → ℝ) = fun (i : Nat) => ((i : Nat) : ℝ) := by
  funext i
  unfold C05T.ofNatS
  rw [ofRatR]
  simp

/-- the regenerated 2-D `resample_by_count` resamples at positions spanning the curve -/
theorem resample_by_count2_positions [Inhabited (V2 ℝ)] [Inhabited (V3 ℝ)] (c : Curve ℝ (V2 ℝ)) (n : Nat)
    (hL : 0 ≤ c.length) (hn : 2 ≤ n) :
    ∃ ps : List ℝ, GenRs.resample_by_count2 c n = c.resampleAt ps ∧ ps.length = n ∧ ps.head? = some 0 ∧
      ps.getLast? = some c.length ∧ ∀ p ∈ ps, 0 ≤ p ∧ p ≤ c.length := by
  refine ⟨positionsByCount (fun i : Nat => (i : ℝ)) c.length n, ?_, C05.byCount_positions c.length hL n hn⟩
  rw [C05T.resample_by_count_eq, ofNatS_real]

/-- … and so does the 3-D one -/
theorem resample_by_count3_positions [Inhabited (V2 ℝ)] [Inhabited (V3 ℝ)] (c : Curve ℝ (V3 ℝ)) (n : Nat)
    (hL : 0 ≤ c.length) (hn : 2 ≤ n) :
    ∃ ps : List ℝ, GenRs.resample_by_count3 c n = c.resampleAt ps ∧ ps.length = n ∧ ps.head? = some 0 ∧
      ps.getLast? = some c.length ∧ ∀ p ∈ ps, 0 ≤ p ∧ p ≤ c.length := by
  refine ⟨positionsByCount (fun i : Nat => (i : ℝ)) c.length n, ?_, C05.byCount_positions c.length hL n hn⟩
  rw [C05T.resample_by_count3_eq, ofNatS_real]

/-- the regenerated counter loop of `fill_gaps`: with enough iterations the gap divided into `count + 1`
    steps is within the maximum, and no smaller count (from 1) would do -/
theorem fill_gaps_count_spec [Inhabited (V2 ℝ)] [Inhabited (V3 ℝ)] (d maxd : ℝ) (fuel : Nat)
    (h : maxd < d / ((1 : Nat) + 1 : ℝ) → ∃ k, k ≤ fuel ∧ d / (((1 + k : Nat) : ℝ) + 1) ≤ maxd) :
    d / ((GenRs.fill_gaps_count d maxd fuel : ℝ) + 1) ≤ maxd ∧
    ∀ j, 1 ≤ j → j < GenRs.fill_gaps_count d maxd fuel → maxd < d / ((j : ℝ) + 1) := by
  rw [C05T.fill_gaps_count_eq, ofNatS_real]
  exact C05.gapCount_spec d maxd fuel 1 h
/-! ### `simplify` (2-D and 3-D): which tolerance goes where (regenerated arguments) -/

/-- the reduction runs with the tolerance that was ASKED for — not with the curve's own, not with the larger of the
    two — and the simplified curve keeps the curve's own vertex tolerance — not the simplification tolerance -/
theorem simplify_tolerances (e curve_tol : ℝ) :
    GenRs.simplify3_reduction_tol e curve_tol = e ∧ GenRs.simplify3_vertex_tol e curve_tol = curve_tol ∧
    GenRs.simplify2_reduction_tol e curve_tol = e ∧ GenRs.simplify2_vertex_tol e curve_tol = curve_tol :=
  ⟨rfl, rfl, rfl, rfl⟩

end C05U
