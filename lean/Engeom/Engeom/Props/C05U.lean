import Engeom.Props.C05
import Engeom.Props.C05T
import Engeom.Lemmas.RealScalar
/-
  C05 — theorems about the REGENERATED code (over ℝ), by composing the translation ties of Props/C05T with
  the theorems of Props/C05:
  * `resample_by_count` (2-D and 3-D) samples the curve at `n` lengths running from exactly `0` to exactly
    `L`, all inside `[0, L]` — the regenerated function IS `resampleAt` of such a list;
  * the counter loop of `fill_gaps` returns the first count for which the remaining steps are within the
    maximum (given enough iterations).
-/
namespace C05U

theorem ofNatS_real : (C05T.ofNatS : Nat → ℝ) = fun (i : Nat) => ((i : Nat) : ℝ) := by
  funext i
  unfold C05T.ofNatS
  rw [ofRatR]
  simp

/-- the regenerated 2-D `resample_by_count` resamples at positions spanning the curve -/
theorem resample_by_count2_positions [Inhabited (V2 ℝ)] [Inhabited (V3 ℝ)] (c : Curve ℝ (V2 ℝ)) (n : Nat)
    (hL : 0 ≤ c.length) (hn : 2 ≤ n) :
    ∃ ps : List ℝ, GenRs.resample_by_count2 c n = c.resampleAt ps ∧ ps.length = n ∧ ps.head? = some 0 ∧
      ps.getLast? = some c.length ∧ ∀ p ∈ ps, 0 ≤ p ∧ p ≤ c.length := by
  refine ⟨positionsByCount (fun i : Nat => (i : ℝ)) c.length n, ?_, C05.byCount_positions c.length hL n hn⟩
  rw [C05T.resample_by_count_eq, ofNatS_real]

/-- … and so does the 3-D one -/
theorem resample_by_count3_positions [Inhabited (V2 ℝ)] [Inhabited (V3 ℝ)] (c : Curve ℝ (V3 ℝ)) (n : Nat)
    (hL : 0 ≤ c.length) (hn : 2 ≤ n) :
    ∃ ps : List ℝ, GenRs.resample_by_count3 c n = c.resampleAt ps ∧ ps.length = n ∧ ps.head? = some 0 ∧
      ps.getLast? = some c.length ∧ ∀ p ∈ ps, 0 ≤ p ∧ p ≤ c.length := by
  refine ⟨positionsByCount (fun i : Nat => (i : ℝ)) c.length n, ?_, C05.byCount_positions c.length hL n hn⟩
  rw [C05T.resample_by_count3_eq, ofNatS_real]

/-- the regenerated counter loop of `fill_gaps`: with enough iterations the gap divided into `count + 1`
    steps is within the maximum, and no smaller count (from 1) would do -/
theorem fill_gaps_count_spec [Inhabited (V2 ℝ)] [Inhabited (V3 ℝ)] (d maxd : ℝ) (fuel : Nat)
    (h : maxd < d / ((1 : Nat) + 1 : ℝ) → ∃ k, k ≤ fuel ∧ d / (((1 + k : Nat) : ℝ) + 1) ≤ maxd) :
    d / ((GenRs.fill_gaps_count d maxd fuel : ℝ) + 1) ≤ maxd ∧
    ∀ j, 1 ≤ j → j < GenRs.fill_gaps_count d maxd fuel → maxd < d / ((j : ℝ) + 1) := by
  rw [C05T.fill_gaps_count_eq, ofNatS_real]
  exact C05.gapCount_spec d maxd fuel 1 h
/-! ### `simplify` (2-D and 3-D): which tolerance goes where (regenerated arguments) -/

/-- the reduction runs with the tolerance that was ASKED for — not with the curve's own, not with the larger of the
    two — and the simplified curve keeps the curve's own vertex tolerance — not the simplification tolerance -/
theorem simplify_tolerances (e curve_tol : ℝ) :
    GenRs.simplify3_reduction_tol e curve_tol = e ∧ GenRs.simplify3_vertex_tol e curve_tol = curve_tol ∧
    GenRs.simplify2_reduction_tol e curve_tol = e ∧ GenRs.simplify2_vertex_tol e curve_tol = curve_tol :=
  ⟨rfl, rfl, rfl, rfl⟩

/-! ### Ramer–Douglas–Peucker: the distance of a vertex from the chord (regenerated parameter and distance) -/

theorem smin_eq_min (a b : ℝ) : smin a b = min a b := by unfold smin; exact (min_def a b).symm
theorem smax_eq_max (a b : ℝ) : smax a b = max a b := by unfold smax; exact (max_def a b).symm

theorem rdp_t_eq (ap ab : V2 ℝ) (L : ℝ) (hL : 0 < L) :
    GenRs.rdp_segment_t ap ab L = min (max (V2.dot ap ab / L) 0) 1 := by
  unfold GenRs.rdp_segment_t
  rw [if_pos hL, smin_eq_min, smax_eq_max]

theorem rdp_t_in_unit_interval (ap ab : V2 ℝ) (L : ℝ) :
    0 ≤ GenRs.rdp_segment_t ap ab L ∧ GenRs.rdp_segment_t ap ab L ≤ 1 := by
  by_cases hL : 0 < L
  · rw [rdp_t_eq ap ab L hL]
    exact ⟨le_min (le_max_right _ _) (by norm_num), min_le_right _ _⟩
  · unfold GenRs.rdp_segment_t
    rw [if_neg hL]; norm_num

/-- **The distance that decides whether a vertex may be discarded is its distance from the chord SEGMENT** — the minimum
    over the points `a + s·ab`, `0 ≤ s ≤ 1`, not the distance from the infinite line through the chord: a vertex beyond
    an end of the chord is measured from that end. -/
theorem rdp_distance_is_the_minimum_over_the_segment (ap ab : V2 ℝ) (hL : 0 < V2.normSq ab) (s : ℝ) (h0 : 0 ≤ s)
    (h1 : s ≤ 1) :
    GenRs.rdp_segment_dist ap ab (GenRs.rdp_segment_t ap ab (V2.normSq ab)) ≤ V2.norm (V2.sub ap (V2.smul s ab)) := by
  show Real.sqrt (V2.normSq _) ≤ Real.sqrt (V2.normSq _)
  apply Real.sqrt_le_sqrt
  set L := V2.normSq ab with hLdef
  set d := V2.dot ap ab with hd
  have expand : ∀ u : ℝ, V2.normSq (V2.sub ap (V2.smul u ab)) = V2.normSq ap - 2 * u * d + u * u * L := by
    intro u
    simp only [V2.normSq, V2.dot, V2.sub, V2.smul, hLdef, hd]; ring
  rw [expand, expand]
  have ht : GenRs.rdp_segment_t ap ab L = min (max (d / L) 0) 1 := rdp_t_eq ap ab L hL
  rw [ht]
  have hdL : d = (d / L) * L := by field_simp
  set q := d / L with hq
  rcases le_total q 0 with hq0 | hq0
  · rw [max_eq_right hq0, min_eq_left (by norm_num : (0 : ℝ) ≤ 1)]
    nlinarith [mul_nonneg h0 (mul_nonneg h0 hL.le), mul_nonneg h0 (mul_nonneg (neg_nonneg.mpr hq0) hL.le)]
  · rw [max_eq_left hq0]
    rcases le_total q 1 with hq1 | hq1
    · rw [min_eq_left hq1]
      nlinarith [mul_nonneg (mul_self_nonneg (s - q)) hL.le]
    · rw [min_eq_right hq1]
      nlinarith [mul_nonneg (mul_nonneg (sub_nonneg.mpr h1) (sub_nonneg.mpr h1)) hL.le,
        mul_nonneg (mul_nonneg (sub_nonneg.mpr h1) (sub_nonneg.mpr hq1)) hL.le]

end C05U
