import Engeom.Model.Frame
import Engeom.Model.Curve
import Engeom.Lemmas.RealScalar
import Mathlib.Tactic.Linarith
import Mathlib.Tactic.Ring
import Mathlib.Tactic.LinearCombination
import Mathlib.Algebra.Order.Field.Basic
/-
  C03 — Measurements do not depend on the coordinate frame.
  For every ordered field and every rigid motion (rotation matrix with RᵀR = I plus translation).
-/

namespace C03

variable {F : Type} [Field F] [LinearOrder F] [IsStrictOrderedRing F]

/-- the rotation part is orthogonal: the columns are orthonormal (RᵀR = I) -/
structure IsRot3 (T : Iso3 F) : Prop where
  c00 : V3.dot T.col0 T.col0 = 1
  c11 : V3.dot T.col1 T.col1 = 1
  c22 : V3.dot T.col2 T.col2 = 1
  c01 : V3.dot T.col0 T.col1 = 0
  c02 : V3.dot T.col0 T.col2 = 0
  c12 : V3.dot T.col1 T.col2 = 0

structure IsRot2 (T : Iso2 F) : Prop where
  unit : T.c * T.c + T.s * T.s = 1

/-- Rotating two vectors keeps their dot product (normals only rotate; angles are preserved). -/
theorem dot_applyVec (T : Iso3 F) (h : IsRot3 T) (a b : V3 F) :
    V3.dot (T.applyVec a) (T.applyVec b) = V3.dot a b := by
  obtain ⟨c00, c11, c22, c01, c02, c12⟩ := h
  simp only [Iso3.applyVec, Iso3.col0, Iso3.col1, Iso3.col2, V3.dot] at *
  linear_combination (a.x * b.x) * c00 + (a.y * b.y) * c11 + (a.z * b.z) * c22 +
    (a.x * b.y + a.y * b.x) * c01 + (a.x * b.z + a.z * b.x) * c02 + (a.y * b.z + a.z * b.y) * c12

theorem sub_apply (T : Iso3 F) (p q : V3 F) : V3.sub (T.apply p) (T.apply q) = T.applyVec (V3.sub p q) := by
  simp only [Iso3.apply, Iso3.applyVec, V3.sub, V3.add, V3.dot, V3.mk.injEq]
  refine ⟨?_, ?_, ?_⟩ <;> ring

/-- Squared distances are invariant under a rigid motion. -/
theorem distSq_apply (T : Iso3 F) (h : IsRot3 T) (p q : V3 F) :
    V3.normSq (V3.sub (T.apply p) (T.apply q)) = V3.normSq (V3.sub p q) := by
  rw [sub_apply]; exact dot_applyVec T h _ _

/-- … hence distances (at ℝ, through the square root). -/
theorem dist_apply (T : Iso3 ℝ) (h : IsRot3 T) (p q : V3 ℝ) : vdist (T.apply p) (T.apply q) = vdist p q := by
  show Real.sqrt (V3.dot (V3.sub (T.apply p) (T.apply q)) (V3.sub (T.apply p) (T.apply q))) =
    Real.sqrt (V3.dot (V3.sub p q) (V3.sub p q))
  congr 1
  exact distSq_apply T h p q

/-- Scalar projection onto a surface point's normal is frame independent. -/
theorem scalarProjection_invariant (T : Iso3 F) (h : IsRot3 T) (s : SP3 F) (q : V3 F) :
    (s.transformed T).scalarProjection (T.apply q) = s.scalarProjection q := by
  simp only [SP3.scalarProjection, SP3.transformed]
  rw [sub_apply]; exact dot_applyVec T h _ _

theorem applyVec_add_smul (T : Iso3 F) (a n : V3 F) (k : F) :
    V3.add (T.apply a) (V3.smul k (T.applyVec n)) = T.apply (V3.add a (V3.smul k n)) := by
  simp only [Iso3.apply, Iso3.applyVec, V3.add, V3.smul, V3.dot, V3.mk.injEq]
  refine ⟨?_, ?_, ?_⟩ <;> ring

/-- Projections onto a surface point's line commute with the motion. -/
theorem projection_commutes (T : Iso3 F) (h : IsRot3 T) (s : SP3 F) (q : V3 F) :
    (s.transformed T).projection (T.apply q) = T.apply (s.projection q) := by
  unfold SP3.projection
  rw [scalarProjection_invariant T h]
  simp only [SP3.atDistance, SP3.transformed]
  exact applyVec_add_smul T _ _ _

/-- Signed point-to-plane distance is frame independent (unit normal). -/
theorem plane_signedDistance_invariant (T : Iso3 F) (h : IsRot3 T) (P : Plane3 F)
    (hn : V3.dot P.normal P.normal = 1) (q : V3 F) :
    (P.transformBy T).signedDistance (T.apply q) = P.signedDistance q := by
  have h1 := dot_applyVec T h P.normal q
  have h2 := dot_applyVec T h P.normal (V3.smul P.d P.normal)
  simp only [Plane3.signedDistance, Plane3.transformBy, Plane3.ofNormalPoint, SP3.transformed,
    Iso3.apply, V3.dot, V3.add, V3.smul, Iso3.applyVec] at *
  linear_combination h1 - h2 - P.d * hn

/-- Projection onto a plane commutes with the motion. -/
theorem plane_project_commutes (T : Iso3 F) (h : IsRot3 T) (P : Plane3 F)
    (hn : V3.dot P.normal P.normal = 1) (q : V3 F) :
    (P.transformBy T).project (T.apply q) = T.apply (P.project q) := by
  unfold Plane3.project
  rw [plane_signedDistance_invariant T h P hn]
  simp only [Plane3.transformBy, Plane3.ofNormalPoint, SP3.transformed, Iso3.apply, Iso3.applyVec,
    V3.sub, V3.add, V3.smul, V3.dot, V3.mk.injEq]
  refine ⟨?_, ?_, ?_⟩ <;> ring

/-- Inverting the normal flips the sign of the signed distance. -/
theorem plane_inverted_flips (P : Plane3 F) (q : V3 F) :
    P.invertedNormal.signedDistance q = -P.signedDistance q := by
  simp only [Plane3.invertedNormal, Plane3.signedDistance, V3.neg, V3.dot]; ring

/-- The projection of a point lies on the plane (unit normal), and a point on the plane projects
    onto itself. -/
theorem plane_project_on_plane (P : Plane3 F) (hn : V3.dot P.normal P.normal = 1) (q : V3 F) :
    P.signedDistance (P.project q) = 0 := by
  simp only [Plane3.signedDistance, Plane3.project, V3.sub, V3.smul, V3.dot] at *
  linear_combination (-(P.normal.x * q.x + P.normal.y * q.y + P.normal.z * q.z - P.d)) * hn

theorem plane_project_idem (P : Plane3 F) (hn : V3.dot P.normal P.normal = 1) (q : V3 F) :
    P.project (P.project q) = P.project q := by
  have h0 := plane_project_on_plane P hn q
  unfold Plane3.project at h0 ⊢
  rw [h0]
  simp [V3.sub, V3.smul]

/-- Transforming by `T` and then by its inverse restores every point. -/
theorem inv_apply_apply (T : Iso3 F) (h : IsRot3 T) (p : V3 F) : T.inv.apply (T.apply p) = p := by
  obtain ⟨c00, c11, c22, c01, c02, c12⟩ := h
  simp only [Iso3.inv, Iso3.apply, Iso3.applyVec, Iso3.col0, Iso3.col1, Iso3.col2, V3.dot, V3.add, V3.neg] at *
  cases p with
  | mk px py pz =>
    simp only [V3.mk.injEq]
    refine ⟨?_, ?_, ?_⟩
    · linear_combination px * c00 + py * c01 + pz * c02
    · linear_combination px * c01 + py * c11 + pz * c12
    · linear_combination px * c02 + py * c12 + pz * c22

/-- Transforming by a composition equals transforming in sequence. -/
theorem mul_apply (A B : Iso3 F) (p : V3 F) : (A.mul B).apply p = A.apply (B.apply p) := by
  simp only [Iso3.mul, Iso3.apply, Iso3.applyVec, Iso3.col0, Iso3.col1, Iso3.col2, V3.dot, V3.add, V3.mk.injEq]
  refine ⟨?_, ?_, ?_⟩ <;> ring

/-! ### 2-D -/

theorem dot_applyVec2 (T : Iso2 F) (h : IsRot2 T) (a b : V2 F) :
    V2.dot (T.applyVec a) (T.applyVec b) = V2.dot a b := by
  obtain ⟨hu⟩ := h
  simp only [Iso2.applyVec, V2.dot]
  linear_combination (a.x * b.x + a.y * b.y) * hu

theorem sub_apply2 (T : Iso2 F) (p q : V2 F) : V2.sub (T.apply p) (T.apply q) = T.applyVec (V2.sub p q) := by
  simp only [Iso2.apply, Iso2.applyVec, V2.sub, V2.add, V2.mk.injEq]
  refine ⟨?_, ?_⟩ <;> ring

theorem distSq_apply2 (T : Iso2 F) (h : IsRot2 T) (p q : V2 F) :
    V2.normSq (V2.sub (T.apply p) (T.apply q)) = V2.normSq (V2.sub p q) := by
  rw [sub_apply2]; exact dot_applyVec2 T h _ _

theorem dist_apply2 (T : Iso2 ℝ) (h : IsRot2 T) (p q : V2 ℝ) : vdist (T.apply p) (T.apply q) = vdist p q := by
  show Real.sqrt (V2.dot (V2.sub (T.apply p) (T.apply q)) (V2.sub (T.apply p) (T.apply q))) =
    Real.sqrt (V2.dot (V2.sub p q) (V2.sub p q))
  congr 1
  exact distSq_apply2 T h p q

theorem scalarProjection_invariant2 (T : Iso2 F) (h : IsRot2 T) (s : SP2 F) (q : V2 F) :
    (s.transformed T).scalarProjection (T.apply q) = s.scalarProjection q := by
  simp only [SP2.scalarProjection, SP2.transformed]
  rw [sub_apply2]; exact dot_applyVec2 T h _ _

theorem inv_apply_apply2 (T : Iso2 F) (h : IsRot2 T) (p : V2 F) : T.inv.apply (T.apply p) = p := by
  obtain ⟨hu⟩ := h
  cases p with
  | mk px py =>
    simp only [Iso2.inv, Iso2.apply, Iso2.applyVec, V2.add, V2.neg, V2.mk.injEq]
    refine ⟨?_, ?_⟩
    · linear_combination px * hu
    · linear_combination py * hu

theorem mul_apply2 (A B : Iso2 F) (p : V2 F) : (A.mul B).apply p = A.apply (B.apply p) := by
  simp only [Iso2.mul, Iso2.apply, Iso2.applyVec, V2.add, V2.mk.injEq]
  refine ⟨?_, ?_⟩ <;> ring

/-! ### curves: construction commutes with a rigid motion, so lengths are invariant -/

/-- The tolerance de-duplication makes the same keep/drop decisions after a rigid motion
    (its decisions are distance comparisons). -/
theorem dedup_map_apply2 (T : Iso2 ℝ) (h : IsRot2 T) (tol : ℝ) (pts : List (V2 ℝ)) :
    dedupTolPts tol (pts.map T.apply) = (dedupTolPts tol pts).map T.apply := by
  cases pts with
  | nil => rfl
  | cons a r =>
    simp only [List.map_cons, dedupTolPts]
    congr 1
    induction r generalizing a with
    | nil => rfl
    | cons b r ih =>
      simp only [List.map_cons, dedupTolPts.go]
      rw [dist_apply2 T h]
      split_ifs
      · exact ih a
      · simp only [List.map_cons]; congr 1; exact ih b

/-- Cumulative lengths are unchanged by a rigid motion of the vertices. -/
theorem cumLengths_map_apply2 (T : Iso2 ℝ) (h : IsRot2 T) (pts : List (V2 ℝ)) :
    cumLengths (pts.map T.apply) = cumLengths pts := by
  cases pts with
  | nil => rfl
  | cons a r =>
    simp only [List.map_cons, cumLengths]
    generalize (0 : ℝ) = acc
    induction r generalizing a acc with
    | nil => rfl
    | cons b r ih =>
      simp only [List.map_cons, cumLengths.go]
      rw [dist_apply2 T h, ih]

/-! non-vacuity: a quarter turn about z, shifted -/
example : IsRot3 (⟨⟨0, -1, 0⟩, ⟨1, 0, 0⟩, ⟨0, 0, 1⟩, ⟨5, 6, 7⟩⟩ : Iso3 ℚ) := by
  constructor <;> norm_num [Iso3.col0, Iso3.col1, Iso3.col2, V3.dot]
example : IsRot2 (⟨3 / 5, 4 / 5, ⟨1, 2⟩⟩ : Iso2 ℚ) := ⟨by norm_num⟩

end C03
