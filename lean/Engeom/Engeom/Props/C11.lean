import Engeom.Model.Circle
import Engeom.Lemmas.Basics
import Engeom.Lemmas.RealScalar
import Mathlib.Tactic.FieldSimp
import Mathlib.Tactic.Ring
import Mathlib.Tactic.LinearCombination
import Mathlib.Tactic.Positivity
/-
  C11 — Circle, arc and tangent constructions satisfy their defining constraints (at ℝ).
  Partial: containment / tightness of ARC bounding boxes and the sweep-sign and end-point clauses
  of the three-point arc involve quadrant reasoning about atan2 and are validated by the
  correspondence run (dense sampling), not proved.
-/

namespace C11

open Real

theorem ccTol_pos : (0 : ℝ) < ccTol := by
  unfold ccTol; rw [ofRatR]; norm_num [Gen.CC_TOL_num, Gen.CC_TOL_den]
theorem collinearTol_pos : (0 : ℝ) < collinearTol := by
  unfold collinearTol; rw [ofRatR]; norm_num [Gen.COLLINEAR_TOL_num, Gen.COLLINEAR_TOL_den]

theorem dist2_sq (a b : V2 ℝ) : dist2 a b * dist2 a b = (a.x - b.x) * (a.x - b.x) + (a.y - b.y) * (a.y - b.y) := by
  unfold dist2 V2.norm V2.normSq
  rw [sqrtR]
  simp only [V2.dot, V2.sub]
  exact Real.mul_self_sqrt (by nlinarith [mul_self_nonneg (a.x - b.x), mul_self_nonneg (a.y - b.y)])

theorem dist2_nonneg (a b : V2 ℝ) : 0 ≤ dist2 a b := by
  unfold dist2 V2.norm; rw [sqrtR]; exact Real.sqrt_nonneg _

/-! ### circle–circle: the number of points matches the configuration -/

theorem cc_none_concentric (s o : Circle ℝ) (h : dist2 s.c o.c < ccTol) : s.intersectionsWith o = [] := by
  unfold Circle.intersectionsWith; simp only [h, if_true]

theorem cc_none_separate (s o : Circle ℝ) (h : s.r + o.r < dist2 s.c o.c) : s.intersectionsWith o = [] := by
  unfold Circle.intersectionsWith
  dsimp only
  split_ifs <;> rfl

theorem cc_none_nested (s o : Circle ℝ) (h : dist2 s.c o.c < |s.r - o.r|) : s.intersectionsWith o = [] := by
  unfold Circle.intersectionsWith
  dsimp only
  rw [sabs_eq]
  split_ifs <;> rfl

/-- never more than two points, whatever the configuration -/
theorem cc_at_most_two (s o : Circle ℝ) : (s.intersectionsWith o).length ≤ 2 := by
  unfold Circle.intersectionsWith
  dsimp only
  split_ifs <;> simp

/-- Crossing circles: exactly two points, each on BOTH circles (squared distances). -/
theorem cc_points_on_both (s o : Circle ℝ) (hr0 : 0 ≤ s.r) (hr1 : 0 ≤ o.r)
    (hd : ¬ dist2 s.c o.c < ccTol) (h1 : ¬ s.r + o.r < dist2 s.c o.c) (h2 : ¬ dist2 s.c o.c < |s.r - o.r|)
    (ht : ¬ (|dist2 s.c o.c - (s.r + o.r)| < ccTol ∨ abs (dist2 s.c o.c - abs (s.r - o.r)) < ccTol)) :
    (s.intersectionsWith o).length = 2 ∧
    ∀ p ∈ s.intersectionsWith o,
      V2.normSq (V2.sub p s.c) = s.r * s.r ∧ V2.normSq (V2.sub p o.c) = o.r * o.r := by
  have hdpos : 0 < dist2 s.c o.c := lt_of_lt_of_le ccTol_pos (not_lt.mp hd)
  have hdsq := dist2_sq s.c o.c
  set d := dist2 s.c o.c with hdef
  have hne : d ≠ 0 := hdpos.ne'
  push_neg at h1 h2
  have hdiff := abs_le.mp h2
  -- a² ≤ r0²
  set a := (s.r * s.r - o.r * o.r + d * d) / (2 * d) with ha
  have ha2 : 2 * d * a = s.r * s.r - o.r * o.r + d * d := by rw [ha]; field_simp
  have hh : 0 ≤ s.r * s.r - a * a := by
    have e1 : a ≤ s.r := by
      rw [ha, div_le_iff₀ (by positivity)]; nlinarith [mul_self_nonneg (d - s.r - o.r), mul_self_nonneg (d - s.r + o.r)]
    have e2 : -s.r ≤ a := by
      rw [ha, le_div_iff₀ (by positivity)]; nlinarith [mul_self_nonneg (d + s.r - o.r), mul_self_nonneg (d + s.r + o.r)]
    nlinarith
  have hcond : ¬ ((decide (sabs (d - (s.r + o.r)) < ccTol) || decide (sabs (d - sabs (s.r - o.r)) < ccTol)) = true) := by
    simp only [sabs_eq, Bool.or_eq_true, decide_eq_true_eq]; exact ht
  unfold Circle.intersectionsWith
  simp only [← hdef, hd, if_false, not_lt.mpr h1, sabs_eq, not_lt.mpr h2]
  simp only [sabs_eq] at hcond
  rw [if_neg hcond]
  rw [smax_eq, max_eq_left hh]
  set h := Real.sqrt (s.r * s.r - a * a) with hhdef
  have hsq : h * h = s.r * s.r - a * a := Real.mul_self_sqrt hh
  refine ⟨rfl, ?_⟩
  intro p hp
  simp only [List.mem_cons, List.not_mem_nil, or_false] at hp
  have key : (o.c.x - s.c.x) * (o.c.x - s.c.x) + (o.c.y - s.c.y) * (o.c.y - s.c.y) = d * d := by
    rw [hdsq]; ring
  set ux := (o.c.x - s.c.x) / d with hux
  set uy := (o.c.y - s.c.y) / d with huy
  have hu : ux * ux + uy * uy = 1 := by
    rw [hux, huy]; field_simp; linarith
  have hdx : o.c.x - s.c.x = d * ux := by rw [hux]; field_simp
  have hdy : o.c.y - s.c.y = d * uy := by rw [huy]; field_simp
  have rot : ∀ A H : ℝ, (A * ux - H * uy) * (A * ux - H * uy) + (A * uy + H * ux) * (A * uy + H * ux) = A * A + H * H := by
    intro A H; linear_combination (A * A + H * H) * hu
  have hfin : a * a + h * h = s.r * s.r := by linarith
  have hfin2 : (a - d) * (a - d) + h * h = o.r * o.r := by nlinarith
  rcases hp with rfl | rfl
  · simp only [V2.normSq, V2.dot, V2.sub, V2.add, V2.smul]
    constructor
    · show (s.c.x + a * ux + h * -uy - s.c.x) * (s.c.x + a * ux + h * -uy - s.c.x) +
        (s.c.y + a * uy + h * ux - s.c.y) * (s.c.y + a * uy + h * ux - s.c.y) = s.r * s.r
      have e1 : s.c.x + a * ux + h * -uy - s.c.x = a * ux - h * uy := by ring
      have e2 : s.c.y + a * uy + h * ux - s.c.y = a * uy + h * ux := by ring
      rw [e1, e2, rot]; exact hfin
    · show (s.c.x + a * ux + h * -uy - o.c.x) * (s.c.x + a * ux + h * -uy - o.c.x) +
        (s.c.y + a * uy + h * ux - o.c.y) * (s.c.y + a * uy + h * ux - o.c.y) = o.r * o.r
      have e1 : s.c.x + a * ux + h * -uy - o.c.x = (a - d) * ux - h * uy := by linarith [hdx]
      have e2 : s.c.y + a * uy + h * ux - o.c.y = (a - d) * uy + h * ux := by linarith [hdy]
      rw [e1, e2, rot]; exact hfin2
  · simp only [V2.normSq, V2.dot, V2.sub, V2.add, V2.smul]
    constructor
    · show (s.c.x + a * ux - h * -uy - s.c.x) * (s.c.x + a * ux - h * -uy - s.c.x) +
        (s.c.y + a * uy - h * ux - s.c.y) * (s.c.y + a * uy - h * ux - s.c.y) = s.r * s.r
      have e1 : s.c.x + a * ux - h * -uy - s.c.x = a * ux - (-h) * uy := by ring
      have e2 : s.c.y + a * uy - h * ux - s.c.y = a * uy + (-h) * ux := by ring
      rw [e1, e2, rot]; linarith
    · show (s.c.x + a * ux - h * -uy - o.c.x) * (s.c.x + a * ux - h * -uy - o.c.x) +
        (s.c.y + a * uy - h * ux - o.c.y) * (s.c.y + a * uy - h * ux - o.c.y) = o.r * o.r
      have e1 : s.c.x + a * ux - h * -uy - o.c.x = (a - d) * ux - (-h) * uy := by linarith [hdx]
      have e2 : s.c.y + a * uy - h * ux - o.c.y = (a - d) * uy + (-h) * ux := by linarith [hdy]
      rw [e1, e2, rot]; linarith

/-- Regression witness (D9): for the nested circles (0,0,5) and (1,0,1) the pre-fix code took the
    square root of a NEGATIVE number (`r₀² − a² = 25 − 156.25`), which is NaN in f64. -/
theorem cc_prefix_nested_negative_radicand :
    Circle.intersectionsWith_prefix_h (⟨⟨0, 0⟩, 5⟩ : Circle ℝ) ⟨⟨1, 0⟩, 1⟩ < 0 := by
  have hd : dist2 (⟨0, 0⟩ : V2 ℝ) ⟨1, 0⟩ = 1 := by
    unfold dist2 V2.norm V2.normSq; rw [sqrtR]; simp [V2.dot, V2.sub]
  unfold Circle.intersectionsWith_prefix_h
  simp only [hd]; norm_num

/-! ### tangent points from an external point -/

/-- Each tangent point lies on the circle. -/
theorem tangent_on_circle (c : Circle ℝ) (p t0 t1 : V2 ℝ) (h : c.tangentPointsTo p = some (t0, t1)) :
    V2.normSq (V2.sub t0 c.c) = c.r * c.r ∧ V2.normSq (V2.sub t1 c.c) = c.r * c.r := by
  unfold Circle.tangentPointsTo at h
  dsimp only at h
  split_ifs at h
  simp only [Option.some.injEq, Prod.mk.injEq] at h
  obtain ⟨rfl, rfl⟩ := h
  constructor <;>
  · simp only [V2.normSq, V2.dot, V2.sub]
    show (_ + c.r * Real.cos _ - _) * (_ + c.r * Real.cos _ - _) + (_ + c.r * Real.sin _ - _) * (_ + c.r * Real.sin _ - _) = _
    have := Real.sin_sq_add_cos_sq
    nlinarith [Real.sin_sq_add_cos_sq (Scalar.atan2 (p.y - c.c.y) (p.x - c.c.x) - Scalar.acos (c.r / dist2 c.c p)),
      Real.sin_sq_add_cos_sq (Scalar.atan2 (p.y - c.c.y) (p.x - c.c.x) + Scalar.acos (c.r / dist2 c.c p))]

/-- The key identity behind tangency: with central angle `φ = arccos (r/d)`, the radius to the
    tangent point is perpendicular to the tangent line, for EVERY `d > r > 0`:
    `r·d·cos φ − r² = 0`. -/
theorem tangent_perpendicular_identity (r d : ℝ) (hr : 0 < r) (hd : r < d) :
    r * d * Real.cos (Real.arccos (r / d)) - r * r = 0 := by
  have hdpos : 0 < d := hr.trans hd
  have h1 : -1 ≤ r / d := by
    have : 0 ≤ r / d := div_nonneg hr.le hdpos.le
    linarith
  have h2 : r / d ≤ 1 := by rw [div_le_one hdpos]; exact hd.le
  rw [Real.cos_arccos h1 h2]
  field_simp
  ring

/-- (radius) · (external point − tangent point) = r·d·cos(θ − α) − r², written out: this is the
    quantity that must vanish. -/
theorem tangent_dot_formula (r d th al : ℝ) :
    (r * Real.cos al) * (d * Real.cos th - r * Real.cos al) + (r * Real.sin al) * (d * Real.sin th - r * Real.sin al) =
      r * d * Real.cos (th - al) - r * r := by
  rw [Real.cos_sub]
  nlinarith [Real.sin_sq_add_cos_sq al]

/-- Regression witness (D10): with `arcsin` instead of `arccos` the same quantity is `2√2 − 1 ≠ 0`
    for `r = 1`, `d = 3` (the two coincide only at `d = r√2`, which is all the tests use). -/
theorem tangent_prefix_counterexample :
    (1 : ℝ) * 3 * Real.cos (Real.arcsin (1 / 3)) - 1 * 1 ≠ 0 := by
  rw [Real.cos_arcsin]
  have h : Real.sqrt (1 - (1 / 3 : ℝ) ^ 2) = Real.sqrt 8 / 3 := by
    rw [show (1 : ℝ) - (1 / 3) ^ 2 = 8 / 9 by norm_num]
    rw [show (8 : ℝ) / 9 = 8 / (3 * 3) by norm_num, Real.sqrt_div' 8 (by positivity)]
    rw [Real.sqrt_mul_self (by norm_num)]
  rw [h]
  have h8 : 1 < Real.sqrt 8 := by
    rw [show (1 : ℝ) = Real.sqrt 1 by simp]
    exact Real.sqrt_lt_sqrt (by norm_num) (by norm_num)
  intro hc
  nlinarith

/-! ### the three-point circle is equidistant from its three points and rejects collinear ones -/

theorem circumcentre_identity (x0 y0 x1 y1 x2 y2 : ℝ)
    (hdet : (x0 - x1) * (y1 - y2) - (x1 - x2) * (y0 - y1) ≠ 0) :
    let det := (x0 - x1) * (y1 - y2) - (x1 - x2) * (y0 - y1)
    let bc := (x0 * x0 + y0 * y0 - (x1 * x1 + y1 * y1)) / 2
    let cd := (x1 * x1 + y1 * y1 - x2 * x2 - y2 * y2) / 2
    let cx := (bc * (y1 - y2) - cd * (y0 - y1)) / det
    let cy := ((x0 - x1) * cd - (x1 - x2) * bc) / det
    (cx - x0) * (cx - x0) + (cy - y0) * (cy - y0) = (cx - x1) * (cx - x1) + (cy - y1) * (cy - y1) ∧
    (cx - x1) * (cx - x1) + (cy - y1) * (cy - y1) = (cx - x2) * (cx - x2) + (cy - y2) * (cy - y2) := by
  intro det bc cd cx cy
  have hdet' : det ≠ 0 := hdet
  have hcx : cx * det = bc * (y1 - y2) - cd * (y0 - y1) := div_mul_cancel₀ _ hdet'
  have hcy : cy * det = (x0 - x1) * cd - (x1 - x2) * bc := div_mul_cancel₀ _ hdet'
  -- the centre satisfies the two perpendicular-bisector equations
  have e1 : cx * (x0 - x1) + cy * (y0 - y1) = bc := by
    have : (cx * (x0 - x1) + cy * (y0 - y1)) * det = bc * det := by
      calc (cx * (x0 - x1) + cy * (y0 - y1)) * det = (cx * det) * (x0 - x1) + (cy * det) * (y0 - y1) := by ring
        _ = bc * det := by rw [hcx, hcy]; simp only [det]; ring
    exact mul_right_cancel₀ hdet this
  have e2 : cx * (x1 - x2) + cy * (y1 - y2) = cd := by
    have : (cx * (x1 - x2) + cy * (y1 - y2)) * det = cd * det := by
      calc (cx * (x1 - x2) + cy * (y1 - y2)) * det = (cx * det) * (x1 - x2) + (cy * det) * (y1 - y2) := by ring
        _ = cd * det := by rw [hcx, hcy]; simp only [det]; ring
    exact mul_right_cancel₀ hdet this
  constructor
  · simp only [bc] at e1; linarith
  · simp only [cd] at e2; linarith

theorem from3Points_equidistant (p0 p1 p2 : V2 ℝ) (c : Circle ℝ) (h : Circle.from3Points p0 p1 p2 = some c) :
    V2.normSq (V2.sub c.c p0) = V2.normSq (V2.sub c.c p1) ∧ V2.normSq (V2.sub c.c p1) = V2.normSq (V2.sub c.c p2) ∧
    c.r * c.r = V2.normSq (V2.sub c.c p0) := by
  unfold Circle.from3Points at h
  dsimp only at h
  rw [sabs_eq] at h
  split_ifs at h with hd
  have hdet : (p0.x - p1.x) * (p1.y - p2.y) - (p1.x - p2.x) * (p0.y - p1.y) ≠ 0 := by
    intro h0; rw [h0, abs_zero] at hd
    apply hd
    exact mul_nonneg collinearTol_pos.le (mul_nonneg (Real.sqrt_nonneg _) (Real.sqrt_nonneg _))
  simp only [Option.some.injEq] at h
  subst h
  obtain ⟨k1, k2⟩ := circumcentre_identity p0.x p0.y p1.x p1.y p2.x p2.y hdet
  refine ⟨k1, k2, ?_⟩
  show Scalar.sqrt _ * Scalar.sqrt _ = _
  rw [sqrtR]
  exact Real.mul_self_sqrt (add_nonneg (mul_self_nonneg _) (mul_self_nonneg _))

/-- exactly collinear points (zero determinant) are rejected whatever their spacing, and so are
    triples whose determinant is within the relative tolerance of zero -/
theorem from3Points_collinear_rejected (p0 p1 p2 : V2 ℝ)
    (h : |(p0.x - p1.x) * (p1.y - p2.y) - (p1.x - p2.x) * (p0.y - p1.y)| ≤
      collinearTol * (V2.norm (V2.sub p0 p1) * V2.norm (V2.sub p1 p2))) :
    Circle.from3Points p0 p1 p2 = none := by
  unfold Circle.from3Points
  dsimp only
  rw [sabs_eq, if_pos h]

theorem from3Points_exactly_collinear_rejected (p0 p1 p2 : V2 ℝ)
    (h : (p0.x - p1.x) * (p1.y - p2.y) - (p1.x - p2.x) * (p0.y - p1.y) = 0) :
    Circle.from3Points p0 p1 p2 = none := by
  apply from3Points_collinear_rejected
  rw [h, abs_zero]
  exact mul_nonneg collinearTol_pos.le (mul_nonneg (Real.sqrt_nonneg _) (Real.sqrt_nonneg _))

/-! ### arcs and bounding boxes -/

/-- arc length, point-at-length and point-at-fraction agree -/
theorem arc_length_fraction_agree (a : Arc ℝ) (f : ℝ) (hl : a.length ≠ 0) :
    a.pointAtLength (f * a.length) = a.pointAtFraction f := by
  unfold Arc.pointAtLength
  rw [mul_div_assoc, div_self hl, mul_one]

/-- The cached bounding box of a circle contains every point of the circle … -/
theorem circleAabb_contains (c : Circle ℝ) (hr : 0 ≤ c.r) (t : ℝ) :
    (circleAabb c).1.x ≤ (c.pointAtAngle t).x ∧ (c.pointAtAngle t).x ≤ (circleAabb c).2.x ∧
    (circleAabb c).1.y ≤ (c.pointAtAngle t).y ∧ (c.pointAtAngle t).y ≤ (circleAabb c).2.y := by
  simp only [circleAabb, Circle.pointAtAngle]
  have h1 := Real.neg_one_le_cos t
  have h2 := Real.cos_le_one t
  have h3 := Real.neg_one_le_sin t
  have h4 := Real.sin_le_one t
  show _ ≤ c.c.x + (c.r * Real.cos t - 0 * Real.sin t) ∧ c.c.x + (c.r * Real.cos t - 0 * Real.sin t) ≤ _ ∧
    _ ≤ c.c.y + (c.r * Real.sin t + 0 * Real.cos t) ∧ c.c.y + (c.r * Real.sin t + 0 * Real.cos t) ≤ _
  refine ⟨?_, ?_, ?_, ?_⟩ <;> nlinarith

/-- … and touches it on all four sides (at the angles 0, π/2, π, 3π/2). -/
theorem circleAabb_touches (c : Circle ℝ) :
    (c.pointAtAngle 0).x = (circleAabb c).2.x ∧ (c.pointAtAngle (π / 2)).y = (circleAabb c).2.y ∧
    (c.pointAtAngle π).x = (circleAabb c).1.x ∧ (c.pointAtAngle (3 * π / 2)).y = (circleAabb c).1.y := by
  simp only [circleAabb, Circle.pointAtAngle]
  refine ⟨?_, ?_, ?_, ?_⟩
  · show c.c.x + (c.r * Real.cos 0 - 0 * Real.sin 0) = _; simp
  · show c.c.y + (c.r * Real.sin (π / 2) + 0 * Real.cos (π / 2)) = _; simp
  · show c.c.x + (c.r * Real.cos π - 0 * Real.sin π) = _; simp; ring
  · show c.c.y + (c.r * Real.sin (3 * π / 2) + 0 * Real.cos (3 * π / 2)) = _
    have : Real.sin (3 * π / 2) = -1 := by
      rw [show 3 * π / 2 = π + π / 2 by ring, Real.sin_add]; simp
    rw [this]; ring

/-! non-vacuity: the 3-4-5 crossing pair -/
example : ¬ dist2 (⟨0, 0⟩ : V2 ℝ) ⟨5, 0⟩ < ccTol := by
  have hd : dist2 (⟨0, 0⟩ : V2 ℝ) ⟨5, 0⟩ = 5 := by
    unfold dist2 V2.norm V2.normSq; rw [sqrtR]; simp only [V2.dot, V2.sub]
    rw [show ((0:ℝ) - 5) * (0 - 5) + (0 - 0) * (0 - 0) = 5 * 5 by norm_num]
    exact Real.sqrt_mul_self (by norm_num)
  rw [hd]; unfold ccTol; rw [ofRatR]; norm_num [Gen.CC_TOL_num, Gen.CC_TOL_den]

end C11
