import Engeom.Generated.RsC08
/-
  C08 — translation tie: the 2-D point-to-surface Jacobian row of src/geom2/align2/jacobian.rs
  (regenerated on every run) is the model row whose derivative property is proved in Props/C08.
-/
namespace C08T
set_option linter.unusedSectionVars false
variable {α : Type} [Add α] [Sub α] [Mul α] [Div α] [Neg α] [LT α] [LE α]
  [DecidableLT α] [DecidableLE α] [OfNat α 0] [OfNat α 1] [OfNat α 2] [Scalar α]

theorem point_surface_jacobian_eq (p : V2 α) (s : SP2 α) (params : RcParams2 α) :
    GenRs.point_surface_jacobian p s params = pointSurfaceJacobian2 p s.normal params.currentRc := rfl
end C08T
