import Engeom.Generated.RsC08
import Engeom.Lemmas.RealScalar
import Mathlib.Algebra.Field.Basic
/-
  C08 — translation tie: the 2-D point-to-surface Jacobian row of src/geom2/align2/jacobian.rs
  (regenerated on every run) is the model row whose derivative property is proved in Props/C08.
-/
namespace C08T
set_option linter.unusedSectionVars false
variable {α : Type} [Add α] [Sub α] [Mul α] [Div α] [Neg α] [LT α] [LE α]
  [DecidableLT α] [DecidableLE α] [OfNat α 0] [OfNat α 1] [OfNat α 2] [Scalar α]

theorem point_surface_jacobian_eq (p : V2 α) (s : SP2 α) (params : RcParams2 α) :
    GenRs.point_surface_jacobian p s params = pointSurfaceJacobian2 p s.normal params.currentRc := rfl

/-- `to_wpr` (src/geom3/align3/rotations.rs: Euler angles of a rotation matrix with its two gimbal-lock
    branches — the function `RcParams3::from_initial` starts every 3-D alignment from) is regenerated on
    every run and equals the model's `toWpr` over ℝ (the Rust writes the south-pole pitch as `-PI / 2.0`,
    the model as `-(π/2)`: equal in a field, and bit-identical at Float since negation is exact) -/
theorem to_wpr_eq (m : Mat3 ℝ) : GenRs.to_wpr m = toWpr m := by
  unfold GenRs.to_wpr toWpr wprEps
  have hn : Gen.WPR_EPSILON_num = 1 := rfl
  have hd : Gen.WPR_EPSILON_den = 100000000 := rfl
  simp only [neg_div, hn, hd]
end C08T
