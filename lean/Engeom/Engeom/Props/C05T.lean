import Engeom.Generated.RsC05
import Engeom.Generated.RsC05_3d
/-
  C05 — translation tie.  `resample_by_count` and `resample_by_spacing` of src/geom2/curve2.rs are
  regenerated from the /repo working tree on every run by tools/rs2lean.py — their `for` / `while`
  loops included (a `for` over a range becomes a left fold, a `while` the bounded iteration
  `whileFuel`, `for p in &mut xs { *p += d }` a map) — and are proved equal to the model's
  position lists fed to `Curve.resampleAt`:  `positionsByCount` (a map over the range) and
  `centred (positionsBySpacing …)` (fuel recursion).  The proofs are by induction over the loops,
  for every scalar type (no algebraic law is used), so they hold at Float as well.
-/
namespace C05T
set_option linter.unusedSectionVars false
variable {α : Type} [Add α] [Sub α] [Mul α] [Div α] [Neg α] [LT α] [LE α]
  [DecidableLT α] [DecidableLE α] [OfNat α 0] [OfNat α 1] [OfNat α 2] [Scalar α]
  [Inhabited α] [Inhabited (V2 α)] [Inhabited (V3 α)]

/-- a `for` loop that only pushes is a map -/
theorem foldl_push_eq_map {β γ : Type} (g : β → γ) (l : List β) (init : List γ) :
    l.foldl (fun acc i => acc ++ [g i]) init = init ++ l.map g := by
  induction l generalizing init with
  | nil => simp
  | cons a r ih => simp [List.foldl_cons, ih, List.append_assoc]

/-- the cast `i as f64` of the translation -/
def ofNatS (i : Nat) : α := Scalar.ofRat i 1

theorem resample_by_count_eq (c : Curve α (V2 α)) (n : Nat) :
    GenRs.resample_by_count2 c n = c.resampleAt (positionsByCount ofNatS c.length n) := by
  unfold GenRs.resample_by_count2 positionsByCount
  have := foldl_push_eq_map (fun i => (ofNatS i / ofNatS (n - 1) * c.length : α)) (List.range n) []
  simp only [List.nil_append] at this
  simp only [ofNatS] at this ⊢
  rw [this]

/-- the `while` loop of `resample_by_spacing` is the model's fuel recursion -/
theorem while_positions_eq (len s : α) (fuel : Nat) (cur : α) (acc : List α) :
    (whileFuel fuel (fun (st : List α × α) => decide (st.2 < len))
        (fun st => (st.1 ++ [st.2], st.2 + s)) (acc, cur)).1
      = positionsBySpacing len s fuel cur acc := by
  induction fuel generalizing cur acc with
  | zero => rfl
  | succ k ih =>
    unfold whileFuel positionsBySpacing
    by_cases h : cur < len
    · simp only [h, decide_true, if_true]
      exact ih _ _
    · simp only [h, decide_false, if_false, Bool.false_eq_true]

theorem centred_eq (len : α) (ps : List α) :
    centred len ps = ps.map (fun p => p + (len - ps.getLast?.getD default) / 2) := by
  unfold centred
  cases h : ps.getLast? with
  | some last => simp
  | none =>
    have : ps = [] := by simpa using h
    simp [this]

theorem resample_by_spacing_eq (c : Curve α (V2 α)) (s : α) (fuel : Nat) :
    GenRs.resample_by_spacing2 c s fuel
      = c.resampleAt (centred c.length (positionsBySpacing c.length s fuel 0 [])) := by
  unfold GenRs.resample_by_spacing2
  rw [centred_eq, ← while_positions_eq]

/-! the 3-D versions (src/geom3/curve3.rs; they `unwrap` the result, the model keeps the `Option`) -/

theorem resample_by_count3_eq (c : Curve α (V3 α)) (n : Nat) :
    GenRs.resample_by_count3 c n = c.resampleAt (positionsByCount ofNatS c.length n) := by
  unfold GenRs.resample_by_count3 positionsByCount
  have := foldl_push_eq_map (fun i => (ofNatS i / ofNatS (n - 1) * c.length : α)) (List.range n) []
  simp only [List.nil_append] at this
  simp only [ofNatS] at this ⊢
  rw [this]

theorem resample_by_spacing3_eq (c : Curve α (V3 α)) (s : α) (fuel : Nat) :
    GenRs.resample_by_spacing3 c s fuel
      = c.resampleAt (centred c.length (positionsBySpacing c.length s fuel 0 [])) := by
  unfold GenRs.resample_by_spacing3
  rw [centred_eq, ← while_positions_eq]

/-- the counter loop of `fill_gaps` is the model's `gapCount` -/
theorem fill_gaps_count_aux (d maxd : α) (fuel n : Nat) :
    whileFuel fuel (fun n => decide (maxd < d / (Scalar.ofRat (n + 1) 1 : α))) (fun n => n + 1) n
      = gapCount ofNatS d maxd fuel n := by
  induction fuel generalizing n with
  | zero => rfl
  | succ k ih =>
    unfold whileFuel gapCount
    by_cases h : maxd < d / (Scalar.ofRat (n + 1) 1 : α)
    · simp only [h, decide_true, if_true, ofNatS]
      exact ih (n + 1)
    · simp only [h, decide_false, if_false, ofNatS, Bool.false_eq_true]

theorem fill_gaps_count_eq (d maxd : α) (fuel : Nat) :
    GenRs.fill_gaps_count d maxd fuel = gapCount ofNatS d maxd fuel 1 :=
  fill_gaps_count_aux d maxd fuel 1
end C05T
