import Engeom.Generated.RsC09
/-
  C09 — translation tie.  Regenerated from the /repo working tree on every run: the whole of
  `Series1::best_fit_line` (src/func1/series1.rs: its five iterator sums and the closed form for slope
  and intercept) and of `Polynomial::f` (src/func1/polynomial.rs: the evaluation loop).  The first is
  proved equal to the model's `bestFitLine` (whose closed form Props/C09 proves to solve the normal
  equations), the second to the fold of `c[i] * x^i` over `0 .. K`.
-/
namespace C09T
set_option linter.unusedSectionVars false
variable {α : Type} [Add α] [Sub α] [Mul α] [Div α] [Neg α] [LT α] [LE α]
  [DecidableLT α] [DecidableLE α] [OfNat α 0] [OfNat α 1] [OfNat α 2] [Scalar α] [Inhabited α]

/-- the cast `len as f64` of the translation -/
def ofNatS (i : Nat) : α := Scalar.ofRat i 1

theorem zip_map_eq_zipWith (xs ys : List α) :
    (xs.zip ys).map (fun (p : α × α) => p.1 * p.2) = List.zipWith (· * ·) xs ys := by
  induction xs generalizing ys with
  | nil => rfl
  | cons a r ih => cases ys with
    | nil => rfl
    | cons b s => simp [List.zip_cons_cons, List.zipWith_cons_cons, ih]

theorem best_fit_line_eq (s : SeriesXY α) : GenRs.best_fit_line s = bestFitLine ofNatS s.x s.y := by
  unfold GenRs.best_fit_line bestFitLine
  have h := zip_map_eq_zipWith s.x s.y
  simp only [ofNatS] at *
  rw [← h]

/-- `Polynomial::f` accumulates `c[i] * x^i` for `i = 0 .. K-1`, starting from 0 -/
theorem polynomial_f_eq (p : PolyC α) (x : α) (K : Nat) :
    GenRs.polynomial_f p x K = (List.range K).foldl (fun y i => y + p.c.getD i default * spow x i) 0 := rfl
end C09T
