import Engeom.Generated.RsC19
import Engeom.Generated.Consts
/-
  C19 — translation tie for the plane functions of src/geom3/plane3.rs (regenerated on every run).
  `UnitVec3::new_normalize` is mapped to the model's `normalize3`.
-/
namespace C19T
set_option linter.unusedSectionVars false
variable {α : Type} [Add α] [Sub α] [Mul α] [Div α] [Neg α] [LT α] [LE α]
  [DecidableLT α] [DecidableLE α] [OfNat α 0] [OfNat α 1] [OfNat α 2] [Scalar α]

theorem Plane3_inverted_normal_eq (P : Plane3 α) : GenRs.Plane3_inverted_normal P = P.invertedNormal := rfl
theorem Plane3_signed_distance_eq (P : Plane3 α) (q : V3 α) :
    GenRs.Plane3_signed_distance_to_point P q = P.signedDistance q := rfl
theorem Plane3_distance_eq (P : Plane3 α) (q : V3 α) :
    GenRs.Plane3_distance_to_point P q = sabs (P.signedDistance q) := rfl
theorem Plane3_project_point_eq (P : Plane3 α) (q : V3 α) : GenRs.Plane3_project_point P q = P.project q := rfl
theorem Plane3_intersection_distance_eq (P : Plane3 α) (sp : SP3 α) :
    GenRs.Plane3_intersection_distance P sp
      = Plane3.intersectionDistance (Scalar.ofRat Gen.PLANE_ISECT_TOL_num Gen.PLANE_ISECT_TOL_den) P sp := rfl
theorem Plane3_from_normal_point_eq (n p : V3 α) : GenRs.Plane3_from_normal_point n p = Plane3.ofNormalPoint n p := rfl
theorem Plane3_from_three_points_eq (p1 p2 p3 : V3 α) :
    GenRs.Plane3_from_three_points p1 p2 p3 = Plane3.ofThreePoints p1 p2 p3 := rfl
theorem Plane3_from_surface_point_eq (sp : SP3 α) :
    GenRs.Plane3_from_surface_point sp = Plane3.ofNormalPoint sp.normal sp.point := rfl
/-- `SvdBasis::rank`: the regenerated counting loop, run on the three singular values, is the model's `rank` -/
theorem svd_rank_eq (S : SvdBasis3M α) (tol : α) : GenRs.svd_rank [S.s0, S.s1, S.s2] tol = S.rank tol := by
  unfold GenRs.svd_rank SvdBasis3M.rank
  simp only [List.foldl]
  by_cases h0 : tol < S.s0 <;> by_cases h1 : tol < S.s1 <;> by_cases h2 : tol < S.s2 <;> simp [h0, h1, h2]
end C19T
