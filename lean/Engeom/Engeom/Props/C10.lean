import Engeom.Model.Airfoil
import Engeom.Generated.Consts
import Engeom.Lemmas.RealScalar
import Mathlib.Tactic.Linarith
import Mathlib.Tactic.Ring
import Mathlib.Tactic.FieldSimp
import Mathlib.Tactic.Positivity
import Mathlib.Tactic.LinearCombination
/-
  C10 — Airfoil analysis yields inscribed circles and recovers a known medial axis.
  PARTIAL: what is proved is the logic core (station container, bisection, step schedule) and the
  generator of the test family; the geometric guarantees of the searches are decided per case by
  the oracle of the correspondence run.
-/

namespace C10

/-! ### the station container -/

theorem reverse_reverse (c : OCircle) : c.reverse.reverse = c := by
  cases c; simp [OCircle.reverse]

/-- all spanning rays point the same way -/
def SameSense (l : List OCircle) : Prop := ∀ a ∈ l, ∀ b ∈ l, a.up = b.up

theorem stored_id (o : OrientedCircles) (c : OCircle) : (o.stored c).id = c.id := by
  unfold OrientedCircles.stored
  cases o.last with
  | none => rfl
  | some l => dsimp only; split <;> rfl

theorem push_circles (o : OrientedCircles) (c : OCircle) :
    (o.push c).circles = if o.reversed then o.stored c :: o.circles else o.circles ++ [o.stored c] := by
  unfold OrientedCircles.push
  split <;> simp_all

theorem push_reversed (o : OrientedCircles) (c : OCircle) : (o.push c).reversed = o.reversed := by
  unfold OrientedCircles.push
  split <;> rfl

/-- **`last` is always the most recently pushed station** (whichever end is the working end) -/
theorem last_push (o : OrientedCircles) (c : OCircle) : (o.push c).last = some (o.stored c) := by
  unfold OrientedCircles.last
  rw [push_reversed, push_circles]
  cases o.reversed <;> simp

theorem last_mem {o : OrientedCircles} {l : OCircle} (h : o.last = some l) : l ∈ o.circles := by
  unfold OrientedCircles.last at h
  split at h
  · exact List.mem_of_mem_head? h
  · exact List.mem_of_getLast? h

/-- **pushing keeps every spanning ray in one sense**: a circle whose ray opposes the working end
    is flipped before it is stored -/
theorem push_sameSense {o : OrientedCircles} (h : SameSense o.circles) (c : OCircle) :
    SameSense (o.push c).circles := by
  have key : ∀ a ∈ o.circles, a.up = (o.stored c).up := by
    intro a ha
    unfold OrientedCircles.stored
    cases hl : o.last with
    | none =>
      exfalso
      unfold OrientedCircles.last at hl
      split at hl
      · cases hc : o.circles with
        | nil => rw [hc] at ha; simp at ha
        | cons x r => rw [hc] at hl; simp at hl
      · cases hc : o.circles with
        | nil => rw [hc] at ha; simp at ha
        | cons x r => rw [hc] at hl; simp at hl
    | some l =>
      have hal : a.up = l.up := h a ha l (last_mem hl)
      dsimp only
      split
      · rename_i hne
        simp only [OCircle.reverse]
        rw [hal]
        cases hlu : l.up <;> cases hcu : c.up <;> simp_all
      · rename_i heq
        rw [hal]
        cases hlu : l.up <;> cases hcu : c.up <;> simp_all
  rw [push_circles]
  intro a ha b hb
  have mem : ∀ x, x ∈ (if o.reversed then o.stored c :: o.circles else o.circles ++ [o.stored c]) →
      x = o.stored c ∨ x ∈ o.circles := by
    intro x hx
    cases hr : o.reversed <;> simp [hr] at hx <;> tauto
  rcases mem a ha with rfl | ha' <;> rcases mem b hb with rfl | hb'
  · rfl
  · exact (key b hb').symm
  · exact key a ha'
  · exact h a ha' b hb'

/-- the identities of the stored stations are the push order, seen from the working end -/
theorem push_ids (o : OrientedCircles) (c : OCircle) :
    (o.push c).circles.map OCircle.id =
      if o.reversed then c.id :: o.circles.map OCircle.id else o.circles.map OCircle.id ++ [c.id] := by
  rw [push_circles]
  split <;> simp [stored_id]

theorem pushAll_ids (r : Bool) (cs : List OCircle) :
    ((cs.foldl OrientedCircles.push (OrientedCircles.create r)).circles.map OCircle.id) =
      if r then (cs.map OCircle.id).reverse else cs.map OCircle.id := by
  have gen : ∀ (cs : List OCircle) (o : OrientedCircles),
      ((cs.foldl OrientedCircles.push o).circles.map OCircle.id) =
        if o.reversed then (cs.map OCircle.id).reverse ++ o.circles.map OCircle.id
        else o.circles.map OCircle.id ++ cs.map OCircle.id := by
    intro cs
    induction cs with
    | nil => intro o; cases o.reversed <;> simp
    | cons c t ih =>
      intro o
      rw [List.foldl_cons, ih, push_reversed, push_ids]
      cases o.reversed <;> simp
  rw [gen]
  cases r <;> simp [OrientedCircles.create]

theorem pushAll_sameSense (r : Bool) (cs : List OCircle) :
    SameSense (cs.foldl OrientedCircles.push (OrientedCircles.create r)).circles := by
  have gen : ∀ (cs : List OCircle) (o : OrientedCircles), SameSense o.circles →
      SameSense (cs.foldl OrientedCircles.push o).circles := by
    intro cs
    induction cs with
    | nil => intro o h; exact h
    | cons c t ih => intro o h; exact ih _ (push_sameSense h c)
  apply gen
  intro a ha; simp [OrientedCircles.create] at ha

/-- `reverse_inscribed_circles` twice is the identity … -/
theorem reverseInscribed_involutive (l : List OCircle) : reverseInscribed (reverseInscribed l) = l := by
  unfold reverseInscribed
  rw [← List.map_reverse, List.reverse_reverse, List.map_map]
  have : OCircle.reverse ∘ OCircle.reverse = id := by funext c; exact reverse_reverse c
  rw [this, List.map_id]

/-- … it reverses the order of the stations … -/
theorem reverseInscribed_ids (l : List OCircle) :
    (reverseInscribed l).map OCircle.id = (l.map OCircle.id).reverse := by
  unfold reverseInscribed
  rw [List.map_map, ← List.map_reverse]
  rfl

/-- … and keeps the rays in one sense -/
theorem reverseInscribed_sameSense {l : List OCircle} (h : SameSense l) : SameSense (reverseInscribed l) := by
  intro a ha b hb
  unfold reverseInscribed at ha hb
  rw [List.mem_map] at ha hb
  obtain ⟨a', ha', rfl⟩ := ha
  obtain ⟨b', hb', rfl⟩ := hb
  simp only [OCircle.reverse]
  rw [h a' (List.mem_reverse.mp ha') b' (List.mem_reverse.mp hb')]

/-! ### the step schedule of `advance_search_along_ray` (constants regenerated from the source) -/

theorem advance_constants :
    (Gen.ADV_START_num, Gen.ADV_START_den) = (1, 4) ∧ (Gen.ADV_MIN_num, Gen.ADV_MIN_den) = (1, 20) ∧
    (Gen.ADV_SHRINK_num, Gen.ADV_SHRINK_den) = (3, 4) ∧ (Gen.ADV_END_num, Gen.ADV_END_den) = (1, 4) := by
  decide

/-- starting at 1/4 of the last radius and multiplying by 3/4 after every failed attempt, the
    search makes at most six attempts before the fraction drops to 1/20 or below: the inner loop of
    `advance_search_along_ray` terminates, whatever the section -/
theorem advance_at_most_six :
    advanceFractions 100 1 4 = [(1, 4), (3, 16), (9, 64), (27, 256), (81, 1024), (243, 4096)] := by
  decide

/-! ### the bisection of `inscribed_from_spanning_ray` -/

section bisect
variable (closest : V2 ℝ → V2 ℝ) (origin dir : V2 ℝ)

theorem half_eq : (Scalar.ofRat 1 2 : ℝ) = 1 / 2 := by rw [ofRatR]; norm_num

/-- every pass halves the bracket … -/
theorem step_gap (s : BisectSt ℝ) :
    (bisectStep closest origin dir s).posF - (bisectStep closest origin dir s).negF =
      (s.posF - s.negF) / 2 := by
  unfold bisectStep; dsimp only
  rw [half_eq]
  split <;> dsimp only <;> ring

/-- … and keeps it ordered and inside the ray -/
theorem step_bounds (s : BisectSt ℝ) (h : 0 ≤ s.negF ∧ s.negF ≤ s.posF ∧ s.posF ≤ 1) :
    0 ≤ (bisectStep closest origin dir s).negF ∧
      (bisectStep closest origin dir s).negF ≤ (bisectStep closest origin dir s).posF ∧
      (bisectStep closest origin dir s).posF ≤ 1 := by
  obtain ⟨h0, h1, h2⟩ := h
  unfold bisectStep; dsimp only
  rw [half_eq]
  split <;> dsimp only <;> refine ⟨?_, ?_, ?_⟩ <;> linarith

/-- **Termination with the promised accuracy.** If the fuel covers `log₂(‖dir‖ / tol)` passes the
    loop ends with a bracket no longer than `tol` (measured along the ray), still ordered and inside
    the ray; the reported centre is its midpoint. -/
theorem loop_converges (tol : ℝ) : ∀ (fuel : Nat) (s : BisectSt ℝ),
    (0 ≤ s.negF ∧ s.negF ≤ s.posF ∧ s.posF ≤ 1) →
    (s.posF - s.negF) * V2.norm dir ≤ tol * 2 ^ fuel →
    let r := bisectLoop closest origin dir tol fuel s
    (r.posF - r.negF) * V2.norm dir ≤ tol ∧ 0 ≤ r.negF ∧ r.negF ≤ r.posF ∧ r.posF ≤ 1
  | 0, s, hb, hg => by
    simp only [bisectLoop, pow_zero, mul_one] at hg ⊢
    exact ⟨hg, hb⟩
  | fuel + 1, s, hb, hg => by
    unfold bisectLoop
    split
    · apply loop_converges tol fuel _ (step_bounds closest origin dir s hb)
      rw [step_gap]
      have : (s.posF - s.negF) / 2 * V2.norm dir = (s.posF - s.negF) * V2.norm dir / 2 := by ring
      rw [this]
      rw [pow_succ] at hg
      linarith
    · rename_i hn
      exact ⟨not_lt.mp hn, hb⟩

theorem init_bounds : 0 ≤ (bisectInit origin dir).negF ∧ (bisectInit origin dir).negF ≤ (bisectInit origin dir).posF ∧
    (bisectInit origin dir).posF ≤ 1 := by
  simp [bisectInit]

/-- the centre returned by `inscribed_from_spanning_ray` lies on the spanning ray between the two
    final limits, which are at most `tol` apart: it is within `tol` of every point of the bracket,
    in particular of the point of the ray that is farthest from the section if that is bracketed -/
theorem centre_in_bracket (tol : ℝ) (fuel : Nat)
    (hf : V2.norm dir ≤ tol * 2 ^ fuel) :
    let s := bisectLoop closest origin dir tol fuel (bisectInit origin dir)
    let f := (s.posF + s.negF) * (Scalar.ofRat 1 2 : ℝ)
    s.negF ≤ f ∧ f ≤ s.posF ∧ (s.posF - s.negF) * V2.norm dir ≤ tol := by
  have h := loop_converges closest origin dir tol fuel (bisectInit origin dir) (init_bounds origin dir)
    (by simpa [bisectInit] using hf)
  obtain ⟨hg, h0, h1, h2⟩ := h
  intro s f
  refine ⟨?_, ?_, hg⟩
  · show s.negF ≤ (s.posF + s.negF) * (Scalar.ofRat 1 2 : ℝ)
    rw [half_eq]; linarith
  · show (s.posF + s.negF) * (Scalar.ofRat 1 2 : ℝ) ≤ s.posF
    rw [half_eq]; linarith

end bisect

/-! ### the test family: envelope of circles along a camber curve -/

/-- both contact points of the envelope are exactly one radius from the camber point (for a unit
    tangent/normal frame and a radius law with |r'| ≤ 1), so the generating circle touches the
    generated section there -/
theorem envelope_contact_distance (c t n : V2 ℝ) (r dr : ℝ) (upper : Bool)
    (ht : V2.dot t t = 1) (hn : V2.dot n n = 1) (htn : V2.dot t n = 0) (hdr : dr * dr ≤ 1) :
    V2.normSq (V2.sub (envelopePoint c t n r dr upper) c) = r * r := by
  have hw : Real.sqrt (1 - dr * dr) * Real.sqrt (1 - dr * dr) = 1 - dr * dr :=
    Real.mul_self_sqrt (by linarith)
  unfold envelopePoint
  simp only [V2.normSq, V2.dot, V2.sub, V2.add, V2.smul] at *
  cases upper <;> simp only [if_true, if_false, Bool.false_eq_true] <;>
    show _ = r * r
  · have e : (Scalar.sqrt (1 - dr * dr) : ℝ) = Real.sqrt (1 - dr * dr) := rfl
    rw [e]
    set w := Real.sqrt (1 - dr * dr)
    linear_combination (r * r * dr * dr) * ht + (r * r * w * w) * hn + (2 * r * r * dr * w) * htn + (r * r) * hw
  · have e : (Scalar.sqrt (1 - dr * dr) : ℝ) = Real.sqrt (1 - dr * dr) := rfl
    rw [e]
    set w := Real.sqrt (1 - dr * dr)
    linear_combination (r * r * dr * dr) * ht + (r * r * w * w) * hn - (2 * r * r * dr * w) * htn + (r * r) * hw

end C10
