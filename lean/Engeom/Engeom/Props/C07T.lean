import Engeom.Generated.RsC07
import Engeom.Model.AlignLoop
/-
  C07 — translation tie.  The per-sample residual of the two alignment problems — the entry
  `res[i] = …` of `PointsToMesh::residuals` (src/geom3/align3/points_to_mesh.rs, both distance modes, with
  `dist` of src/common/points.rs) and of `PointsToCurve::residuals` (src/geom2/align2/points_to_curve.rs) —
  is regenerated from the /repo working tree on every run and is, for every scalar type, the `resid`
  of the model problems `problem3` / `problem2`, the function the honesty theorems of Props/C07
  ("the reported residuals are the residuals of the returned transform") are about.
-/
namespace C07T
set_option linter.unusedSectionVars false
variable {α : Type} [Add α] [Sub α] [Mul α] [Div α] [Neg α] [LT α] [LE α]
  [DecidableLT α] [DecidableLE α] [OfNat α 0] [OfNat α 1] [OfNat α 2] [Scalar α]

theorem residual3_plane_eq (verts : List (V3 α)) (faces : List (Nat × Nat × Nat)) (pts : List (V3 α)) (rcD : V3 α)
    (p : V3 α) (c : SP3 α) (tie : Bool) :
    GenRs.residual3 p c .toPlane = (problem3 true verts faces pts rcD).resid p (c, tie) := rfl

theorem residual3_point_eq (verts : List (V3 α)) (faces : List (Nat × Nat × Nat)) (pts : List (V3 α)) (rcD : V3 α)
    (p : V3 α) (c : SP3 α) (tie : Bool) :
    GenRs.residual3 p c .toPoint = (problem3 false verts faces pts rcD).resid p (c, tie) := rfl

theorem residual2_eq (verts pts : List (V2 α)) (p : V2 α) (c : SP2 α) (tie : Bool) :
    GenRs.residual2 p c = (problem2 verts pts).resid p (c, tie) := rfl
end C07T
