/-
  Scalar: the operations of the model that are not + − × ÷ < ≤.

  The model is written once, polymorphically in the scalar type `α`, using only the core notation
  classes (`Add Sub Mul Div Neg LT LE OfNat`), and is used
    * at `Float` (IEEE binary64) by the executable `driver` (correspondence with the Rust code),
    * at `ℝ` or any linearly ordered field in the proof files (`Engeom/Props`).
  This file is import-free so that the driver links without Mathlib.
-/

class Scalar (α : Type) where
  sqrt : α → α
  sin : α → α
  cos : α → α
  acos : α → α
  asin : α → α
  atan2 : α → α → α
  /-- C `fmod` / Rust `%` on f64: `x - y * trunc (x / y)`, sign of `x`. -/
  fmod : α → α → α
  floor : α → α
  ceil : α → α
  pi : α
  /-- `ofRat n d = n / d`, for decimal thresholds regenerated from the source. -/
  ofRat : Nat → Nat → α

namespace FloatBits

/-- (mantissa, exponent) with |x| = mantissa * 2^exponent, for finite x. -/
def decode (x : Float) : Nat × Int :=
  let b : Nat := x.toBits.toNat
  let e : Nat := (b / 2^52) % 2^11
  let m : Nat := b % 2^52
  if e = 0 then (m, -1074) else (m + 2^52, Int.ofNat e - 1075)

def isNeg (x : Float) : Bool := x.toBits.toNat / 2^63 = 1

/-- Exact `fmod` (the result of C fmod is always exactly representable). -/
def fmod (x y : Float) : Float :=
  if x.isNaN || y.isNaN then x + y
  else if x.isInf then x - x          -- NaN
  else if y == 0.0 then (0.0 : Float) / 0.0
  else if y.isInf then x
  else
    let (mx, ex) := decode x
    let (my, ey) := decode y
    if mx = 0 then x else
    let e := if ex ≤ ey then ex else ey
    let X := mx * 2 ^ (ex - e).toNat
    let Y := my * 2 ^ (ey - e).toNat
    let R := X % Y
    let r := (Float.ofNat R).scaleB e
    if isNeg x then -r else r

end FloatBits

instance : Scalar Float where
  sqrt := Float.sqrt
  sin := Float.sin
  cos := Float.cos
  acos := Float.acos
  asin := Float.asin
  atan2 := Float.atan2
  fmod := FloatBits.fmod
  floor := Float.floor
  ceil := Float.ceil
  pi := 3.14159265358979323846264338327950288
  ofRat n d := Float.ofNat n / Float.ofNat d

/-! Hex transfer of floats (16 hex digits = the IEEE bit pattern). -/
namespace Hex

def digit (n : Nat) : Char :=
  if n < 10 then Char.ofNat (48 + n) else Char.ofNat (87 + n)

def ofNat64 (n : Nat) : String :=
  String.ofList ((List.range 16).map fun i => digit ((n / 16 ^ (15 - i)) % 16))

def ofFloat (x : Float) : String := ofNat64 x.toBits.toNat

def valOf (c : Char) : Option Nat :=
  if '0' ≤ c ∧ c ≤ '9' then some (c.toNat - 48)
  else if 'a' ≤ c ∧ c ≤ 'f' then some (c.toNat - 87)
  else none

def toNat? (s : String) : Option Nat :=
  s.toList.foldl (fun acc c => match acc, valOf c with
    | some a, some v => some (a * 16 + v)
    | _, _ => none) (some 0)

def toFloat? (s : String) : Option Float :=
  if s.length ≠ 16 then none else
  match toNat? s with
  | some n => some (Float.ofBits (UInt64.ofNat n))
  | none => none

end Hex
