import Engeom.Driver.Proto
import Engeom.Driver.C12
import Engeom.Model.Selection

namespace DrvC14
open P

def selop : P SelOp := do
  let t ← tok
  if t = "add" then pure .add else if t = "remove" then pure .remove else if t = "keep" then pure .keep else failure

inductive Step
  | facing (op : SelOp) (pred : List Bool)
  | near (op : SelOp) (allPoints hasAngle : Bool) (base : List Nat) (angle : List Bool)

def step : P Step := do
  let t ← tok
  if t = "facing" then do
    let op ← selop; let pred ← list b; pure (.facing op pred)
  else if t = "near" then do
    let op ← selop; let ap ← b; let ha ← b
    let base ← list n          -- per vertex: 0 fail, 1 pass without normal, 2 pass with normal
    let ang ← list b           -- 3 per face: angle test of corner k of face f
    pure (.near op ap ha base ang)
  else failure

/-- reference "normal" of a vertex is represented by the vertex id itself; the angle test of face
    `f` against it is looked up through the corner of `f` that is this vertex -/
def runStep (faces : List Face) (s : Filter) : Step → Filter
  | .facing op pred => s.mutate op (fun i => (pred[i]?).getD false)
  | .near op ap ha base ang =>
    let baseF : Nat → Option (Option Nat) := fun v =>
      match (base[v]?).getD 0 with | 0 => none | 1 => some none | _ => some (some v)
    let angleOk : Nat → Nat → Bool := fun f r =>
      match faces[f]? with
      | some t =>
        if t.1 == r then (ang[3 * f]?).getD false
        else if t.2.1 == r then (ang[3 * f + 1]?).getD false
        else (ang[3 * f + 2]?).getD false
      | none => false
    s.nearMesh faces baseF ha angleOk ap op (s.toCheck op)

def handle (op : String) (args : List String) : Option String :=
  match op with
  | "select.chain" => (do
      let faces ← list DrvC12.face
      let start ← list n
      let steps ← list step
      let s0 : Filter := ⟨faces.length, start⟩
      let s := steps.foldl (runStep faces) s0
      let sel := DrvC12.sortBy (· < ·) s.indices
      let (keep, tris) := createFromIndices faces sel
      -- triangles reported in ORIGINAL vertex ids, as a sorted multiset
      let back := tris.map (fun (t : Face) => [(keep[t.1]?).getD 0, (keep[t.2.1]?).getD 0, (keep[t.2.2]?).getD 0])
      pure (Out.join [Out.list Out.n sel, Out.list Out.n keep, DrvC12.showLists (DrvC12.sortBy DrvC12.listLt back)])).run args
  | _ => none

end DrvC14
