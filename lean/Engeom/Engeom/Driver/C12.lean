import Engeom.Driver.Proto
import Engeom.Model.Topology

namespace DrvC12
open P

def face : P Face := do let a ← n; let b ← n; let c ← n; pure (a, b, c)
def edge : P Edge := do let a ← n; let b ← n; pure (a, b)

def insSorted {β : Type} (lt : β → β → Bool) (x : β) : List β → List β
  | [] => [x]
  | a :: r => if lt x a then x :: a :: r else a :: insSorted lt x r
def sortBy {β : Type} (lt : β → β → Bool) (l : List β) : List β := l.foldr (insSorted lt) []

def listLt : List Nat → List Nat → Bool
  | [], [] => false
  | [], _ :: _ => true
  | _ :: _, [] => false
  | a :: r, b :: s => a < b || (a == b && listLt r s)

/-- rotate a cycle so that its least vertex comes first -/
def rotMin (c : List Nat) : List Nat :=
  match c.min? with
  | none => c
  | some m =>
    let k := (c.takeWhile (· != m)).length
    c.drop k ++ c.take k

def showLists (ls : List (List Nat)) : String := Out.list (Out.list Out.n) ls

def canonSets (ls : List (List Nat)) : List (List Nat) := sortBy listLt (ls.map (sortBy (· < ·)))

def vox : P Voxel := do let a ← n; let b ← n; let c ← n; pure ((a : Int) - 100, (b : Int) - 100, (c : Int) - 100)
def voxCode (v : Voxel) : Nat := ((v.1 + 100).toNat * 1000 + (v.2.1 + 100).toNat) * 1000 + (v.2.2 + 100).toNat

def handle (op : String) (args : List String) : Option String :=
  match op with
  | "topo.edges" => (do
      let faces ← list face
      let u := uniqueEdges (naiveEdges faces)
      if !manifoldOk u then pure "err" else
      let fe := faceEdges faces u
      let be := boundaryEdges faces
      let injective := (be.map (fun (e : Edge) => e.1)).eraseDups.length == be.length
      let loops := match boundaryLoops be.reverse with
        | none => "stuck"
        | some ls =>
          if injective then "loops " ++ showLists (sortBy listLt (ls.map rotMin))
          else "pinch " ++ showLists (sortBy listLt ((ls.flatMap (fun (l : List Nat) => (cycleEdges l).map edgeKey)).map (fun (e : Edge) => [e.1, e.2])))
      pure (Out.join ["ok", Out.list (fun (p : Edge × Nat) => Out.n p.1.1 ++ " " ++ Out.n p.1.2) u,
        Out.list (fun (t : Nat × Nat × Nat) => Out.join [Out.n t.1, Out.n t.2.1, Out.n t.2.2]) fe, loops])).run args
  | "topo.patches" => (do
      let faces ← list face
      pure (showLists (canonSets (patches faces (List.range faces.length))))).run args
  | "topo.clusters" => (do
      let vs ← list vox
      pure (showLists (canonSets ((clusters vs).map (fun (c : List Voxel) => c.map voxCode))))).run args
  | "topo.chained" => (do
      let idx ← list edge
      pure (showLists (chainedIndices idx))).run args
  | "topo.box" =>
      if args.isEmpty then
        some (Out.list (fun (t : Nat × Nat × Nat) => Out.join [Out.n t.1, Out.n t.2.1, Out.n t.2.2]) Gen.boxFaces)
      else none
  | "topo.cylinder" => (do
      let steps ← n
      pure (Out.list (fun (t : Nat × Nat × Nat) => Out.join [Out.n t.1, Out.n t.2.1, Out.n t.2.2]) (cylinderFaces steps))).run args
  | _ => none

end DrvC12
