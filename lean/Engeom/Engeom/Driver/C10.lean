import Engeom.Driver.Proto
import Engeom.Model.Airfoil

namespace DrvC10
open P

def handle (op : String) (args : List String) : Option String :=
  match op with
  | "airfoil.oriented" => (do
      let reversed ← b; let ups ← list b
      let (oc, lasts) := (ups.zipIdx).foldl (fun (acc : OrientedCircles × List Nat) (ui : Bool × Nat) =>
        let o := acc.1.push ⟨ui.2, ui.1, true⟩
        (o, acc.2 ++ [match o.last with | some c => c.id | none => 0])) (OrientedCircles.create reversed, [])
      let cs : List OCircle := oc.takeCircles
      pure (Out.join (lasts.map Out.n ++ [Out.list Out.n (cs.map OCircle.id)] ++
        cs.map fun (c : OCircle) => Out.b c.up ++ " " ++ Out.b c.posUp))).run args
  | "airfoil.bisect" => (do
      let verts ← list v2; let origin ← v2; let dir ← v2; let tol ← f
      let r := inscribedFromRay (closestPoint2 verts) origin dir tol 200
      pure (Out.join [Out.v2 r.1, Out.f r.2.1])).run args
  | "airfoil.envelope" => (do
      let c ← v2; let t ← v2; let n ← v2; let r ← f; let dr ← f
      pure (Out.join [Out.v2 (envelopePoint c t n r dr true), Out.v2 (envelopePoint c t n r dr false)])).run args
  | _ => none

end DrvC10
