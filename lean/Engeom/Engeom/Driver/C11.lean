import Engeom.Driver.Proto
import Engeom.Model.Circle

namespace DrvC11
open P

def circle : P (Circle Float) := do let c ← v2; let r ← f; pure ⟨c, r⟩
def showBox : Option (V2 Float × V2 Float) → String
  | none => "none"
  | some (lo, hi) => Out.join [Out.v2 lo, Out.v2 hi]

def handle (op : String) (args : List String) : Option String :=
  match op with
  | "circle.cc" => (do
      let a ← circle; let b ← circle
      pure (Out.list Out.v2 (a.intersectionsWith b))).run args
  | "circle.tangent" => (do
      let c ← circle; let p ← v2
      pure (match c.tangentPointsTo p with
        | none => "none"
        | some (a, b) => "some " ++ Out.v2 a ++ " " ++ Out.v2 b)).run args
  | "circle.segment" => (do
      let a ← v2; let b' ← v2; let c ← circle
      let d := V2.sub b' a
      let ts := (lineCircle a d c).filter (fun t => decide (-1.0e-10 ≤ t) && decide (t ≤ 1 + 1.0e-10))
      pure (Out.list Out.v2 (ts.map (fun t => V2.add a (V2.smul t d))))).run args
  | "circle.three" => (do
      let p0 ← v2; let p1 ← v2; let p2 ← v2
      pure (match Arc.threePoints p0 p1 p2 with
        | none => "none"
        | some a => Out.join ["some", Out.v2 a.circle.c, Out.f a.circle.r, Out.f a.angle0, Out.f a.angle])).run args
  | "arc.points" => (do
      let c ← circle; let a0 ← f; let ang ← f; let fr ← f
      let a : Arc Float := ⟨c, a0, ang⟩
      pure (Out.join [Out.f a.length, Out.v2 (a.pointAtFraction fr), Out.v2 (a.pointAtLength (fr * a.length)),
        Out.v2 (a.pointAtAngle 0), Out.v2 (a.pointAtAngle ang)])).run args
  | "arc.aabb" => (do
      let c ← circle; let a0 ← f; let ang ← f
      pure (Out.join [showBox (some (circleAabb c)), showBox (arcAabb c a0 ang)])).run args
  | _ => none

end DrvC11
