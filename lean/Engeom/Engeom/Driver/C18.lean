import Engeom.Driver.Proto
import Engeom.Model.Angles

namespace DrvC18
open P

def dir : P AngleDir := do let t ← tok; if t = "cw" then pure .cw else if t = "ccw" then pure .ccw else failure

def handle (op : String) (args : List String) : Option String :=
  match op with
  | "angle.fmod" => (do let x ← f; let y ← f; pure (Out.f (Scalar.fmod x y))).run args
  | "angle.signed_pi" => (do let x ← f; pure (Out.f (angleSignedPi x))).run args
  | "angle.to_2pi" => (do let x ← f; pure (Out.f (angleTo2pi x))).run args
  | "angle.in_direction" => (do let a ← f; let b ← f; let d ← dir; pure (Out.f (angleInDirection a b d))).run args
  | "angle.compliment" => (do let x ← f; pure (Out.f (signedCompliment2pi x))).run args
  | "angle.interval" => (do
      let s ← f; let e ← f; let q ← f; let fr ← f
      let I := AngleInterval.new s e
      pure (Out.join [Out.f I.start, Out.f I.angle, Out.b (I.contains q), Out.f (I.atFraction fr)])).run args
  | "angle.intersects" => (do
      let s0 ← f; let e0 ← f; let s1 ← f; let e1 ← f
      pure (Out.b ((AngleInterval.new s0 e0).intersects (AngleInterval.new s1 e1)))).run args
  | "angle.signed2" => (do let a ← v2; let b ← v2; pure (Out.f (signedAngle a b))).run args
  | "angle.directed2" => (do let a ← v2; let b ← v2; let d ← dir; pure (Out.f (directedAngle a b d))).run args
  | "interval.ops" => (do
      let a ← f; let b ← f; let c ← f; let d ← f; let x ← f
      let I := Interval.new a b
      let J := Interval.new c d
      let inter := match I.intersection J with
        | none => "none"
        | some K => "some " ++ Out.f K.min ++ " " ++ Out.f K.max
      pure (Out.join [Out.f I.min, Out.f I.max, Out.f I.length, Out.b (I.contains x),
        Out.b (I.containsInterval J), Out.b (I.overlaps J), inter, Out.f (I.clamp x)])).run args
  | _ => none

end DrvC18
