import Engeom.Driver.Proto
import Engeom.Driver.C03
import Engeom.Model.Align

namespace DrvC08
open P

def showIso2 (T : Iso2 Float) : String := Out.join [Out.f T.c, Out.f T.s, Out.v2 T.t]
def showIso3 (T : Iso3 Float) : String := Out.join [Out.v3 T.r0, Out.v3 T.r1, Out.v3 T.r2, Out.v3 T.t]
def showMat (m : Mat3 Float) : String := Out.join [Out.v3 m.r0, Out.v3 m.r1, Out.v3 m.r2]
def ofInt (i : Int) : Float := Float.ofInt i

def handle (op : String) (args : List String) : Option String :=
  match op with
  | "param.iso2" => (do
      let tx ← f; let ty ← f; let th ← f
      let T := iso2FromParam tx ty th
      let p := paramFromIso2 T
      pure (Out.join [showIso2 T, Out.f p.1, Out.f p.2.1, Out.f p.2.2])).run args
  | "param.rc2" => (do
      let init ← DrvC03.iso2; let rc ← v2; let x0 ← f; let x1 ← f; let x2 ← f
      let a := RcParams2.fromInitial init rc
      let b' := RcParams2.set rc (x0, x1, x2)
      pure (Out.join [showIso2 a.transform, Out.v2 a.currentRc, showIso2 b'.transform, showIso2 b'.inverse, Out.v2 b'.currentRc])).run args
  | "jac.surf2" => (do
      let p ← v2; let nn ← v2; let crc ← v2
      let j := pointSurfaceJacobian2 p nn crc
      pure (Out.join [Out.f j.1, Out.f j.2.1, Out.f j.2.2])).run args
  | "param.wpr" => (do
      let rx ← f; let ry ← f; let rz ← f
      let m := eulerMat rx ry rz
      let w := toWpr m
      let d := eulerD ofInt rx ry rz
      pure (Out.join [showMat m, showMat (eulerMat w.1 w.2.1 w.2.2), showMat d.1, showMat d.2.1, showMat d.2.2])).run args
  | "param.rc3" => (do
      let init ← DrvC03.iso3; let rc ← v3; let x ← rep f 6
      let a := RcParams3.fromInitial init rc
      match x with
      | [tx, ty, tz, rx, ry, rz] =>
        let b' := RcParams3.set rc (init.apply rc) tx ty tz rx ry rz
        pure (Out.join [showIso3 a.transform, Out.v3 a.currentRc, showIso3 b'.transform, Out.v3 b'.currentRc])
      | _ => failure).run args
  | "jac.row3" => (do
      let nn ← v3; let fr ← v3; let rx ← f; let ry ← f; let rz ← f
      pure (Out.join ((jacobianRow3 ofInt nn fr rx ry rz).map Out.f))).run args
  | _ => none

end DrvC08
