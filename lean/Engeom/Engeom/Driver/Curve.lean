import Engeom.Driver.Proto
import Engeom.Model.Curve

namespace DrvCurve
open P

instance : Inhabited (V2 Float) := ⟨⟨0, 0⟩⟩
instance : Inhabited (V3 Float) := ⟨⟨0, 0, 0⟩⟩

structure Dim (Pt : Type) where
  parse : P Pt
  show_ : Pt → String
  blend : Bool

def d2 : Dim (V2 Float) := ⟨v2, Out.v2, true⟩
def d3 : Dim (V3 Float) := ⟨v3, Out.v3, false⟩

section
variable {Pt : Type} [VecLike Pt Float] [Inhabited Pt]

def curveP (D : Dim Pt) : P (Curve Float Pt) := do
  let closed ← b; let tol ← f; let verts ← list D.parse; let lengths ← list f
  pure ⟨verts, lengths, closed, tol, D.blend⟩

def showCurve (D : Dim Pt) (c : Curve Float Pt) : String :=
  Out.join [Out.list D.show_ c.verts, Out.list Out.f c.lengths, Out.b c.closed]

def showStation (D : Dim Pt) (c : Curve Float Pt) (s : Station Float Pt) : String :=
  Out.join [Out.n s.index, Out.f s.fraction, D.show_ s.point, D.show_ s.dir, Out.f (c.lengthAlong s)]

def optCurve (D : Dim Pt) : Option (Curve Float Pt) → String
  | none => "none"
  | some c => "some " ++ showCurve D c

def handleDim (D : Dim Pt) (op : String) : P String :=
  match op with
  | "curve.from_points" => do
      let pts ← list D.parse; let tol ← f; let fc ← b
      pure (match Curve.fromPoints pts tol fc D.blend with
        | none => "err"
        | some c => "ok " ++ showCurve D c)
  | "curve.at_length" => do
      let c ← curveP D; let l ← f
      pure (match c.atLength l with
        | none => "none"
        | some s =>
          -- a blended vertex direction whose two edge directions (nearly) cancel is ill-conditioned:
          -- rounding decides the result, so it is not compared
          let vi := if s.fraction == 1 then s.index + 1 else s.index
          let hit := (s.fraction == 0 || s.fraction == 1) && c.len vi == l
          let n := c.count
          let (a, b) := if c.closed && (vi == 0 || vi + 1 == n) then (n - 2, 0)
            else if 0 < vi && vi + 1 < n then (vi - 1, vi) else (0, 0)
          if D.blend && hit && a != b && vnorm (VecLike.add (c.dirOfEdge a) (c.dirOfEdge b)) < 1e-6
          then "ambiguous doubling-back vertex"
          else "some " ++ showStation D c s)
  | "curve.at_vertex" => do
      let c ← curveP D; let i ← n
      pure (showStation D c (c.atVertex i))
  | "curve.between" => do
      let c ← curveP D; let l0 ← f; let l1 ← f
      pure (optCurve D (c.between l0 l1))
  | "curve.by_control" => do
      let c ← curveP D; let a ← f; let b' ← f; let ctl ← f
      pure (optCurve D (c.betweenByControl a b' ctl))
  | "curve.reversed" => do
      let c ← curveP D
      pure (optCurve D c.reversed)
  | "curve.resample" => do
      let c ← curveP D; let mode ← tok
      let positions ← (if mode = "count" then do
          let k ← n; pure (positionsByCount Float.ofNat c.length k)
        else if mode = "spacing" then do
          let s ← f; pure (centred c.length (positionsBySpacing c.length s 10000000 0 []))
        else if mode = "maxspacing" then do
          let m ← f
          let k := Nat.max 2 ((Float.ceil (c.length / m)).toUInt64.toNat + 1)
          pure (positionsByCount Float.ofNat c.length k)
        else failure)
      pure (optCurve D (c.resampleAt positions))
  | "curve.simplify" => do
      let c ← curveP D; let tol ← f
      pure (optCurve D (Curve.fromPoints (rdp c.verts tol) c.tol c.closed D.blend))
  | "curve.rdp" => do
      let pts ← list D.parse; let tol ← f
      pure (Out.list D.show_ (rdp pts tol))
  | "curve.fill_gaps" => do
      let pts ← list D.parse; let maxd ← f
      pure (Out.list D.show_ (fillGaps Float.ofNat 100000 maxd pts))
  | _ => failure

end

def handle (op : String) (args : List String) : Option String :=
  match op with
  | "curve.positions_count" => (do
      let len ← f; let k ← n
      pure (Out.list Out.f (positionsByCount Float.ofNat len k))).run args
  | "curve.positions_spacing" => (do
      let len ← f; let s ← f
      pure (Out.list Out.f (centred len (positionsBySpacing len s 10000000 0 [])))).run args
  | _ =>
    match args with
    | "2" :: rest => (handleDim d2 op).run rest
    | "3" :: rest => (handleDim d3 op).run rest
    | _ => none

end DrvCurve
