import Engeom.Scalar
import Engeom.Model.Prelude
/-
  Line protocol of the driver: one request per line, `op tok tok …`; the answer is one line of
  tokens.  Floats travel as 16 hex digits (IEEE bits), naturals as `i<dec>`, booleans `T`/`F`,
  enums as bare words.
-/

abbrev P := StateT (List String) Option

namespace P
def tok : P String := fun s => match s with | [] => none | t :: r => some (t, r)
def f : P Float := do let t ← tok; match Hex.toFloat? t with | some x => pure x | none => failure
def n : P Nat := do
  let t ← tok
  let t := if t.startsWith "i" then (t.drop 1).toString else t
  match t.toNat? with | some k => pure k | none => failure
def b : P Bool := do let t ← tok; if t = "T" then pure true else if t = "F" then pure false else failure
def v2 : P (V2 Float) := do let x ← f; let y ← f; pure ⟨x, y⟩
def v3 : P (V3 Float) := do let x ← f; let y ← f; let z ← f; pure ⟨x, y, z⟩
def rep {β : Type} (p : P β) : Nat → P (List β)
  | 0 => pure []
  | k + 1 => do let x ← p; let r ← rep p k; pure (x :: r)
/-- count-prefixed list -/
def list {β : Type} (p : P β) : P (List β) := do let k ← n; rep p k
/-- `-` (absent) or a count-prefixed list -/
def optList {β : Type} (p : P β) : P (Option (List β)) := fun s =>
  match s with
  | "-" :: r => some (none, r)
  | _ => (do let l ← list p; pure (some l)) s
/-- `-` (absent) or one item -/
def opt {β : Type} (p : P β) : P (Option β) := fun s =>
  match s with
  | "-" :: r => some (none, r)
  | _ => (do let x ← p; pure (some x)) s
def run {β : Type} (p : P β) (toks : List String) : Option β :=
  match p toks with | some (x, []) => some x | _ => none
end P

namespace Out
def f (x : Float) : String := Hex.ofFloat x
def n (k : Nat) : String := "i" ++ toString k
def b (x : Bool) : String := if x then "T" else "F"
def v2 (v : V2 Float) : String := f v.x ++ " " ++ f v.y
def v3 (v : V3 Float) : String := f v.x ++ " " ++ f v.y ++ " " ++ f v.z
def join (l : List String) : String := " ".intercalate l
def list {β : Type} (g : β → String) (l : List β) : String := join (n l.length :: l.map g)
def optN : Option Nat → String | none => "none" | some k => "some " ++ n k
def optList {β : Type} (g : β → String) : Option (List β) → String | none => "-" | some l => list g l
def optF : Option Float → String | none => "none" | some x => "some " ++ f x
end Out
