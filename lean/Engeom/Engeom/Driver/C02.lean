import Engeom.Driver.Proto
import Engeom.Driver.Curve
import Engeom.Driver.C12
import Engeom.Model.Closest

namespace DrvC02
open P

def handle (op : String) (args : List String) : Option String :=
  match op with
  | "closest.curve2" => (do
      let verts ← list v2; let qs ← list v2
      pure (Out.list (fun q => match closestOnPolyline verts q with
        | some r => Out.f (Float.sqrt r.2.2.2)
        | none => "none") qs)).run args
  | "closest.curve3" => (do
      let verts ← list v3; let qs ← list v3
      pure (Out.list (fun q => match closestOnPolyline verts q with
        | some r => Out.f (Float.sqrt r.2.2.2)
        | none => "none") qs)).run args
  | "closest.mesh" => (do
      let verts ← list v3; let faces ← list DrvC12.face; let qs ← list v3
      pure (Out.list (fun q => match closestOnMeshD2 verts faces q ⟨0, 0, 0⟩ with
        | some d => Out.f (Float.sqrt d)
        | none => "none") qs)).run args
  | _ => none

end DrvC02
