import Engeom.Driver.Proto
import Engeom.Driver.Curve
import Engeom.Model.Search
import Engeom.Model.Hull

namespace DrvC15
open P
open DrvCurve

def showD (l : List (Nat × Float)) : String := Out.list (fun (e : Nat × Float) => Out.f (Float.sqrt e.2)) l

def handle (op : String) (args : List String) : Option String :=
  match op with
  | "search.knn2" => (do
      let pts ← list v2; let q ← v2; let k ← n; let r ← f
      pure (Out.join [showD (nearestK pts q k), showD (withinR pts q r)])).run args
  | "search.knn3" => (do
      let pts ← list v3; let q ← v3; let k ← n; let r ← f
      pure (Out.join [showD (nearestK pts q k), showD (withinR pts q r)])).run args
  | "search.partial2" => (do
      let pts ← list v2; let idx ← list n; let q ← v2
      pure (match partialNearestOne pts idx q with
        | some (i, d) => Out.join ["some", Out.f (Float.sqrt d), Out.f (Float.sqrt (d2 (pts.getD i default) q))]
        | none => "none")).run args
  | "sample.poisson2" => (do
      let pts ← list v2; let work ← list n; let r ← f
      pure (Out.list Out.n (samplePoissonDisk pts work r))).run args
  | "sample.poisson3" => (do
      let pts ← list v3; let work ← list n; let r ← f
      pure (Out.list Out.n (samplePoissonDisk pts work r))).run args
  | "hull.farthest" => (do
      let pts ← list v2
      let r := farthestPair pts
      pure (Out.join [Out.n r.1.1, Out.n r.1.2, Out.f (Float.sqrt r.2)])).run args
  | "hull.pivot" => (do
      let pts ← list v2; let start ← n; let sd ← v2; let endIdx ← opt n; let ccw ← b; let r ← f
      let stop := match endIdx with | some e => PivotEnd.onIndex e | none => PivotEnd.onRepeat
      pure (match ballPivot pts start sd stop (if ccw then AngleDir.ccw else AngleDir.cw) r with
        | none => "err"
        | some (idx, cs) => Out.join ["ok", Out.list Out.n idx, Out.list Out.v2 cs])).run args
  | _ => none

end DrvC15
