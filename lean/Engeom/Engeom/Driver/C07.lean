import Engeom.Driver.Proto
import Engeom.Driver.C03
import Engeom.Model.AlignLoop

namespace DrvC07
open P

def x3 : P (Float × Float × Float) := do let a ← f; let b ← f; let c ← f; pure (a, b, c)
def tri : P (Nat × Nat × Nat) := do let a ← n; let b ← n; let c ← n; pure (a, b, c)

/-- residuals, `*` where the closest reference point is a matter of tie-breaking -/
def showRes2 (pb : AlignProblem (V2 Float) (SP2 Float × Bool) (Float × Float × Float) Float)
    (s : AlignState (V2 Float) (SP2 Float × Bool) (Float × Float × Float)) : String :=
  Out.join (List.zipWith (fun (r : Float) (c : SP2 Float × Bool) => if c.2 then "*" else Out.f r) (pb.residuals s) s.closest)

def showRes3 (toPlane : Bool) (pb : AlignProblem (V3 Float) (SP3 Float × Bool) (List Float) Float)
    (s : AlignState (V3 Float) (SP3 Float × Bool) (List Float)) : String :=
  Out.join (List.zipWith (fun (r : Float) (c : SP3 Float × Bool) => if toPlane && c.2 then "*" else Out.f r) (pb.residuals s) s.closest)

def handle (op : String) (args : List String) : Option String :=
  match op with
  | "align.seq2" => (do
      let verts ← list v2; let pts ← list v2; let init ← DrvC03.iso2; let xs ← list x3
      let pb := problem2 verts pts
      let rc := meanPoint2 pts
      let p0 := RcParams2.fromInitial init rc
      let s0 := pb.refresh p0.x
      let states := xs.foldl (fun (acc : List (AlignState (V2 Float) (SP2 Float × Bool) (Float × Float × Float))) x =>
        acc ++ [pb.step (acc.getLastD s0) (.setParams x)]) [s0]
      let showT (s : AlignState (V2 Float) (SP2 Float × Bool) (Float × Float × Float)) : String :=
        let T := (RcParams2.set rc s.x).transform
        Out.join [Out.f T.c, Out.f T.s, Out.v2 T.t]
      pure (Out.join (states.map fun s => Out.join [showT s, showRes2 pb s]))).run args
  | "align.seq3" => (do
      let toPlane ← b; let verts ← list v3; let faces ← list tri; let pts ← list v3
      let init ← DrvC03.iso3; let xs ← list (rep f 6)
      let rc := meanPoint3 pts
      let p0 := RcParams3.fromInitial init rc
      let pb := problem3 toPlane verts faces pts p0.rcD
      let s0 := pb.refresh p0.x
      let states := xs.foldl (fun (acc : List (AlignState (V3 Float) (SP3 Float × Bool) (List Float))) x =>
        acc ++ [pb.step (acc.getLastD s0) (.setParams x)]) [s0]
      let showT (s : AlignState (V3 Float) (SP3 Float × Bool) (List Float)) : String :=
        let x := s.x
        let T := (RcParams3.set rc p0.rcD (x.getD 0 0) (x.getD 1 0) (x.getD 2 0) (x.getD 3 0) (x.getD 4 0) (x.getD 5 0)).transform
        Out.join [Out.v3 T.r0, Out.v3 T.r1, Out.v3 T.r2, Out.v3 T.t]
      pure (Out.join (states.map fun s => Out.join [showT s, showRes3 toPlane pb s]))).run args
  | _ => none

end DrvC07
