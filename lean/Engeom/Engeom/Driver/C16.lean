import Engeom.Driver.Proto
import Engeom.Model.Metrology

namespace DrvC16
open P

def mode : P DistMode := do
  let t ← tok; if t = "point" then pure .toPoint else if t = "plane" then pure .toPlane else failure

abbrev NCloud := Cloud Nat Nat Nat

def cloudLit : P (List Nat × Option (List Nat) × Option (List Nat)) := do
  let ps ← list n; let ns ← optList n; let cs ← optList n; pure (ps, ns, cs)

def cloudOp : P (Cloud.Op Nat Nat Nat) := do
  let t ← tok
  if t = "append" then do
    let p ← n; let nn ← opt n; let c ← opt n; pure (.append p nn c)
  else if t = "merge" then do
    let (ps, ns, cs) ← cloudLit; pure (.merge ⟨ps, ns, cs⟩)
  else if t = "select" then do
    let idx ← list n; pure (.select idx)
  else failure

def showCloud (c : NCloud) : String :=
  Out.join [Out.list Out.n c.points, Out.optList Out.n c.normals, Out.optList Out.n c.colors]

def runCloud (c : NCloud) (ops : List (Cloud.Op Nat Nat Nat)) : NCloud × List String :=
  ops.foldl (fun (acc : NCloud × List String) op =>
    let (c', ok) := acc.1.step op
    (c', acc.2 ++ [if ok then "ok" else "rej"])) (c, [])

def handle (op : String) (args : List String) : Option String :=
  match op with
  | "dev.curve" => (do
      let p0 ← v2; let nn ← v2; let q ← v2
      let (d, v) := pointCurveDeviation p0 nn q
      pure (Out.join [Out.v2 d, Out.f v])).run args
  | "dev.mesh" => (do
      let c ← v3; let nn ← v3; let q ← v3; let m ← mode
      let (d, v) := measurePointDeviation c nn q m
      pure (Out.join [Out.v3 d, Out.f v])).run args
  | "dev.distance3" => (do
      let a ← v3; let b ← v3; let d ← v3
      pure (Out.join [Out.f (distanceValue3 a b d), Out.f (distanceValue3 b a (V3.neg d))])).run args
  | "dev.set" => (do
      let init ← list f; let pushes ← list f
      let s0 := DevSet.new init
      let (s, trace) := pushes.foldl (fun (acc : DevSet Float × List String) d =>
          let s' := acc.1.push d
          (s', acc.2 ++ [Out.optN s'.maxIdx, Out.optN s'.minIdx])) (s0, [Out.optN s0.maxIdx, Out.optN s0.minIdx])
      pure (Out.join (trace ++ [Out.optF s.max?, Out.optF s.min?, Out.f s.zone]))).run args
  | "domain.index_of" => (do
      let vs ← list f; let x ← f
      pure (Out.optN (indexOf vs x))).run args
  | "tolmap.get" => (do
      let vs ← list f; let x ← f
      pure (Out.optN (tolMapGet vs x))).run args
  | "cloud.history" => (do
      let t ← tok
      let c0 : Option NCloud ← (if t = "empty" then do
          let hn ← b; let hc ← b; pure (some (Cloud.empty hn hc))
        else if t = "trynew" then do
          let (ps, ns, cs) ← cloudLit; pure (Cloud.tryNew ps ns cs)
        else failure)
      let ops ← list cloudOp
      match c0 with
      | none => pure "err"
      | some c =>
        let (c', tr) := runCloud c ops
        pure (Out.join (["ok"] ++ tr ++ [showCloud c']))).run args
  | _ => none

end DrvC16
