import Engeom.Driver.Proto
import Engeom.Model.Fit

namespace DrvC09
open P

def fabs (x : Float) : Float := if x < 0 then -x else x

def handle (op : String) (args : List String) : Option String :=
  match op with
  | "fit.poly" => (do
      let k ← n; let xs ← list f; let ys ← list f; let ws ← list f; let c ← list f
      -- normalised residual of the normal equations, per row, for the implementation's coefficients
      let rows := (List.range k).map (fun r =>
        let res := normalResidual k xs ys ws c r
        let scale := ((List.range k).map (fun j => fabs (powerSums k xs ws (r + j) * c.getD j 0))).foldl (· + ·) (fabs (rhsSum xs ys ws r) + 1.0e-300)
        res / scale)
      pure (Out.list Out.f rows)).run args
  | "fit.line" => (do
      let xs ← list f; let ys ← list f
      let (m, b') := bestFitLine Float.ofNat xs ys
      pure (Out.join [Out.f m, Out.f b'])).run args
  | _ => none

end DrvC09
