import Engeom.Driver.Proto
import Engeom.Model.Flatten
import Engeom.Model.Topology

namespace DrvC20
open P

def tri : P (Nat × Nat × Nat) := do let a ← n; let b ← n; let c ← n; pure (a, b, c)

def handle (op : String) (args : List String) : Option String :=
  match op with
  | "flatten.planar" => (do
      let verts ← list v3; let faces ← list tri; let bound ← list n
      match flatten verts faces bound with
      | none => pure "none"
      | some uv => pure (Out.join (uv.map fun (p : Float × Float) => Out.f p.1 ++ " " ++ Out.f p.2))).run args
  | "flatten.accepts" => (do
      let nVert ← n; let faces ← list tri
      let u := uniqueEdges (naiveEdges faces)
      let nonManifold := u.any fun (e : Edge × Nat) => decide (2 < e.2)
      let countOf (e : Edge) : Nat := match u.find? (fun (x : Edge × Nat) => x.1 == edgeKey e) with | some x => x.2 | none => 0
      let bnd := (naiveEdges faces).filter fun (e : Edge) => countOf e == 1
      let loops := boundaryLoops bnd
      let nLoops := match loops with | some l => l.length | none => 0
      let nPatches := (patches faces (List.range faces.length)).length
      pure (Out.b (!nonManifold && loops.isSome && acceptsDisk nLoops nPatches nVert u.length faces.length))).run args
  | _ => none

end DrvC20
