import Engeom.Driver.Proto
import Engeom.Model.Section
import Engeom.Model.Topology
import Engeom.Model.Curve

namespace DrvC13
open P

def pair : P (Nat × Nat) := do let a ← n; let b ← n; pure (a, b)
def tri : P (Nat × Nat × Nat) := do let a ← n; let b ← n; let c ← n; pure (a, b, c)

abbrev Seg := ((Nat × Nat) × V3 Float) × ((Nat × Nat) × V3 Float)
def totalLen (cr : List Seg) : Float := cr.foldl (fun (acc : Float) (s : Seg) => acc + V3.norm (V3.sub s.2.2 s.1.2)) 0.0
def keysOf (cr : List Seg) : List ((Nat × Nat) × (Nat × Nat)) := cr.map fun (s : Seg) => (s.1.1, s.2.1)

def handle (op : String) (args : List String) : Option String :=
  match op with
  | "chain.indices" => (do
      let idx ← list pair
      let chains := chainedIndices idx
      pure (Out.join (Out.n chains.length :: chains.map (Out.list Out.n)))).run args
  | "section.edge" => (do
      let nrm ← v3; let d ← f; let a ← v3; let b ← v3
      pure (Out.v3 (crossPoint (⟨nrm, d⟩ : Plane3 Float) a b))).run args
  | "section.mesh" => (do
      let nrm ← v3; let d ← f; let verts ← list v3; let faces ← list tri
      let cr : List Seg := allCrossings (⟨nrm, d⟩ : Plane3 Float) verts faces
      pure (Out.join [Out.n cr.length, Out.f (totalLen cr), Out.n (componentCount (keysOf cr))])).run args
  | "section.curves" => (do
      -- the whole of Mesh::section: crossing segments, chained_indices, Curve3::from_points(tol)
      let nrm ← v3; let d ← f; let tol ← f; let verts ← list v3; let faces ← list tri
      let (pts, pairs) := planeCrossingSegments (⟨nrm, d⟩ : Plane3 Float) (Scalar.ofRat 1 1000000) verts faces
      let chains := chainedIndices pairs
      let curves : List (List (V3 Float)) := chains.filterMap fun (ch : List Nat) =>
        let ps : List (V3 Float) := dedupTolPts tol (ch.map fun i => pts.getD i ⟨0, 0, 0⟩)
        if 2 ≤ ps.length then some ps else none
      pure (Out.join (Out.n curves.length :: curves.map (Out.list Out.v3)))).run args
  | _ => none

end DrvC13
