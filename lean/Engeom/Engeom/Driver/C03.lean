import Engeom.Driver.Proto
import Engeom.Model.Frame

namespace DrvC03
open P

def iso3 : P (Iso3 Float) := do
  let r0 ← v3; let r1 ← v3; let r2 ← v3; let t ← v3; pure ⟨r0, r1, r2, t⟩
def iso2 : P (Iso2 Float) := do
  let c ← f; let s ← f; let t ← v2; pure ⟨c, s, t⟩

def handle (op : String) (args : List String) : Option String :=
  match op with
  | "xform.apply3" => (do
      let A ← iso3; let B ← iso3; let p ← v3; let n ← v3
      pure (Out.join [Out.v3 (A.apply p), Out.v3 (A.applyVec n), Out.v3 ((A.mul B).apply p),
        Out.v3 (A.inv.apply p), Out.v3 ((A.mul A.inv).apply p)])).run args
  | "xform.apply2" => (do
      let A ← iso2; let B ← iso2; let p ← v2; let n ← v2
      pure (Out.join [Out.v2 (A.apply p), Out.v2 (A.applyVec n), Out.v2 ((A.mul B).apply p),
        Out.v2 (A.inv.apply p)])).run args
  | "xform.sp3" => (do
      let T ← iso3; let sp ← v3; let sn ← v3; let q ← v3
      let s : SP3 Float := ⟨sp, sn⟩
      let s' := s.transformed T
      pure (Out.join [Out.f (s.scalarProjection q), Out.v3 (s.projection q),
        Out.v3 s'.point, Out.v3 s'.normal, Out.f (s'.scalarProjection (T.apply q)), Out.v3 (s'.projection (T.apply q))])).run args
  | "xform.plane" => (do
      let T ← iso3; let n ← v3; let d ← f; let q ← v3
      let P : Plane3 Float := ⟨n, d⟩
      let P' := P.transformBy T
      pure (Out.join [Out.f (P.signedDistance q), Out.v3 (P.project q), Out.v3 P'.normal, Out.f P'.d,
        Out.f (P'.signedDistance (T.apply q)), Out.f (P.invertedNormal.signedDistance q)])).run args
  | _ => none

end DrvC03
