import Engeom.Driver.Proto
import Engeom.Model.Basis
import Engeom.Generated.Consts
import Engeom.Generated.Tables

namespace DrvC19
open P

def eps : Float := Scalar.ofRat Gen.FRAME_NORM_TOL_num Gen.FRAME_NORM_TOL_den
def beps : Float := Scalar.ofRat Gen.BASIS_NORM_TOL_num Gen.BASIS_NORM_TOL_den
def isectTol : Float := Scalar.ofRat Gen.PLANE_ISECT_TOL_num Gen.PLANE_ISECT_TOL_den

def outIso3 (T : Iso3 Float) : String := Out.join [Out.v3 T.r0, Out.v3 T.r1, Out.v3 T.r2, Out.v3 T.t]

def recipe (kind : String) : Option (Nat × Nat × List (Nat × Nat × Nat)) :=
  (Gen.frameRecipes.find? (·.1 = kind)).map (·.2)

def m3 (a b c : Float) : Float := smax (sabs a) (smax (sabs b) (sabs c))

def handle (op : String) (args : List String) : Option String :=
  match op with
  | "frame.make" => (do
      let kind ← tok; let a ← v3; let b ← v3; let o ← opt v3
      match recipe kind with
      | none => failure
      | some (pr, se, steps) =>
        match runFrame eps pr se steps a b with
        | none => pure "err"
        | some F => pure ("ok " ++ outIso3 (F.toIso (o.getD ⟨0, 0, 0⟩)))).run args
  | "frame.basis3" => (do
      let b0 ← v3; let b1 ← v3; let o ← v3
      match iso3FromBasis beps b0 b1 o with
      | none => pure "panic"
      | some T => pure ("ok " ++ outIso3 T)).run args
  | "frame.xyo" => (do
      let x ← v3; let y ← v3; let o ← v3
      match iso3FromXyo beps x y o with
      | none => pure "panic"
      | some T => pure ("ok " ++ outIso3 T)).run args
  | "frame.basis2" => (do
      let b0 ← v2; let o ← v2
      match iso2FromBasis beps b0 o with
      | none => pure "panic"
      | some T => pure (Out.join ["ok", Out.f T.c, Out.f T.s, Out.v2 T.t])).run args
  | "basis.svd" => (do
      let pts ← list v3; let ws ← optList f
      let b0 ← v3; let b1 ← v3; let b2 ← v3; let s0 ← f; let s1 ← f; let s2 ← f
      let q ← v3; let tol ← f
      let c := match ws with | none => meanPoint pts | some w => meanPointWeighted pts w
      let A := match ws with | none => centredRows c pts | some w => centredRowsW c pts w
      let S : SvdBasis3M Float := ⟨b0, b1, b2, s0, s1, s2, c⟩
      let (ortho, off, diag) := svdResiduals A S
      -- relative to the spread, floored by the rounding noise of the centring
      let wmax := match ws with | none => 1.0 | some w => w.foldl smax 0.0
      let noise := 1e-14 * (V3.norm c + 1.0) * wmax
      let scale := s0 * s0 + gramForm A b0 b0 + 1e9 * noise * noise * countS pts
      let sorted := decide (s0 ≥ s1 ∧ s1 ≥ s2 ∧ s2 ≥ 0)
      pure (Out.join [Out.v3 c, Out.f ortho, Out.f (off / scale), Out.f (diag / scale), Out.b sorted,
        Out.v3 (S.toBasis q), Out.v3 (S.fromBasis (S.toBasis q)), Out.n (S.rank tol),
        Out.f (s0 * s0 / countS pts), Out.f (s1 * s1 / countS pts), Out.f (s2 * s2 / countS pts)])).run args
  | "plane.from3" => (do
      let p1 ← v3; let p2 ← v3; let p3 ← v3; let q ← v3
      let P := Plane3.ofThreePoints p1 p2 p3
      pure (Out.join [Out.v3 P.normal, Out.f P.d, Out.f (P.signedDistance p1), Out.f (P.signedDistance p2),
        Out.f (P.signedDistance p3), Out.v3 (P.project q), Out.f (P.signedDistance (P.project q)),
        Out.f (P.invertedNormal.signedDistance q)])).run args
  | "plane.fromsp" => (do
      let p ← v3; let n ← v3; let q ← v3; let sp ← v3; let sn ← v3
      let P := Plane3.ofNormalPoint n p
      pure (Out.join [Out.f P.d, Out.f (P.signedDistance p), Out.v3 (P.project q),
        Out.f (P.signedDistance (P.project q)), Out.f (P.invertedNormal.signedDistance q),
        Out.optF (P.intersectionDistance isectTol ⟨sp, sn⟩)])).run args
  | _ => none

end DrvC19
