import Engeom.Driver.Proto
import Engeom.Model.Series
import Engeom.Generated.Consts

namespace DrvC17
open P

def showSer (s : Ser Float) : String := Out.join [Out.list Out.f s.xs, Out.list Out.f s.ys]
def ser : P (Ser Float) := do let xs ← list f; let ys ← list f; pure (xs.zip ys)
def optSer : Option (Ser Float) → String | none => "none" | some s => "some " ++ showSer s

def crossTol : Float := Scalar.ofRat Gen.SERIES_DEDUP_TOL_num Gen.SERIES_DEDUP_TOL_den

def handle (op : String) (args : List String) : Option String :=
  match op with
  | "domain.try_from" => (do
      let vs ← list f
      pure (match domTryFrom vs with | none => "err" | some _ => "ok")).run args
  | "domain.push" => (do
      let vs ← list f; let v ← f
      pure (match domPush vs v with | none => "err" | some l => "ok " ++ Out.list Out.f l)).run args
  | "domain.linear" => (do
      let a ← f; let b ← f; let k ← n
      pure (Out.list Out.f (domLinear Float.ofNat a b k))).run args
  | "series.try_new" => (do
      let xs ← list f; let ys ← list f
      pure (match serTryNew xs ys with | none => "err" | some _ => "ok")).run args
  | "series.scaled" => (do
      let s ← ser; let sx ← f; let sy ← f
      pure (showSer (serScaledBy s sx sy))).run args
  | "series.shift" => (do
      let s ← ser; let dx ← f; let dy ← f
      pure (showSer (serShiftBy s dx dy))).run args
  | "series.interp" => (do
      let s ← ser; let x ← f
      pure (Out.optF (interp s x))).run args
  | "series.between" => (do
      let s ← ser; let x0 ← f; let x1 ← f
      pure (optSer (serBetween s x0 x1))).run args
  | "series.area" => (do
      let s ← ser
      pure (Out.f (serArea s))).run args
  | "series.crossings" => (do
      let s ← ser; let lv ← f
      pure (Out.list Out.f (dedupTol crossTol (sortList (serCrossingsRaw s lv))))).run args
  | "series.resample_n" => (do
      let s ← ser; let k ← n
      match s.xs.head?, s.xs.getLast? with
      | some lo, some hi =>
        let xs := resampleXs Float.ofNat lo hi k
        pure (Out.join [Out.list Out.f xs, Out.list (fun x => Out.optF (interp s x)) xs])
      | _, _ => failure).run args
  | "series.resample_x" => (do
      -- `resampled_x`: the count is ceil(1 + span / spacing) (saturating cast), then `resampled_n`
      let s ← ser; let sp ← f
      match s.xs.head?, s.xs.getLast? with
      | some lo, some hi =>
        let k := (Float.ceil (1.0 + (hi - lo) / sp)).toUInt64.toNat
        let xs := resampleXs Float.ofNat lo hi k
        pure (Out.join [Out.list Out.f xs, Out.list (fun x => Out.optF (interp s x)) xs])
      | _, _ => failure).run args
  | _ => none

end DrvC17
