import Engeom.Driver.Proto
import Engeom.Model.Intersect

namespace DrvC06
open P

def fmax : Float := Float.ofBits 0x7FEFFFFFFFFFFFFF

/-- serialised tree: `n k` followed by k lanes `minx miny maxx maxy child`, child = `l e` or a nested `n …` -/
partial def tree : P (BvhTree Float) := do
  let t ← tok
  if t = "l" then
    let e ← n; pure (.leaf e)
  else if t = "n" then
    let k ← n
    let rec lanes : Nat → P (BvhForest Float)
      | 0 => pure .nil
      | j + 1 => do
        let mn ← v2; let mx ← v2
        let c ← tree
        let r ← lanes j
        pure (.cons mn mx c r)
    let cs ← lanes k
    pure (.node cs)
  else failure

def insertNat (x : Nat) : List Nat → List Nat
  | [] => [x]
  | a :: r => if x ≤ a then x :: a :: r else a :: insertNat x r

def handle (op : String) (args : List String) : Option String :=
  match op with
  | "ray.param" => (do
      let a0 ← v2; let ad ← v2; let b0 ← v2; let bd ← v2
      pure (match intersectionParam a0 ad b0 bd with
        | none => "none"
        | some (t0, t1) => "some " ++ Out.f t0 ++ " " ++ Out.f t1)).run args
  | "ray.intersections" => (do
      let verts ← list v2; let o ← v2; let d ← v2
      let hits := naiveIntersections verts o d
      let span := match spanningRay verts o d with
        | none => "none"
        | some (a, b) => "some " ++ Out.v2 a ++ " " ++ Out.v2 b
      pure (Out.join [Out.list (fun (h : Float × Nat) => Out.f h.1) hits, span,
        Out.optF (maxIntersection verts o d), Out.f (farthestAlong (-fmax) verts o d)])).run args
  | "ray.bvh" => (do
      let verts ← list v2; let o ← v2; let d ← v2
      let tr ← tree
      let hits := polylineIntersections fmax verts o d tr
      let allEdges := (tr.leaves.foldr insertNat []) == List.range (verts.length - 1)
      pure (Out.join [Out.b (tr.boxedB verts), Out.b allEdges,
        Out.list (fun (h : Float × Nat) => Out.f h.1 ++ " " ++ Out.n h.2) hits])).run args
  | "ray.slab" => (do
      let lo ← v2; let hi ← v2; let o ← v2; let d ← v2
      pure (Out.b (castRaySlab fmax lo hi o d))).run args
  | _ => none

end DrvC06
