import Engeom.Driver.Proto
import Engeom.Model.Intersect

namespace DrvC06
open P

def fmax : Float := Float.ofBits 0x7FEFFFFFFFFFFFFF

def handle (op : String) (args : List String) : Option String :=
  match op with
  | "ray.param" => (do
      let a0 ← v2; let ad ← v2; let b0 ← v2; let bd ← v2
      pure (match intersectionParam a0 ad b0 bd with
        | none => "none"
        | some (t0, t1) => "some " ++ Out.f t0 ++ " " ++ Out.f t1)).run args
  | "ray.intersections" => (do
      let verts ← list v2; let o ← v2; let d ← v2
      let hits := naiveIntersections verts o d
      let span := match spanningRay verts o d with
        | none => "none"
        | some (a, b) => "some " ++ Out.v2 a ++ " " ++ Out.v2 b
      pure (Out.join [Out.list (fun (h : Float × Nat) => Out.f h.1) hits, span,
        Out.optF (maxIntersection verts o d), Out.f (farthestAlong (-fmax) verts o d)])).run args
  | "ray.slab" => (do
      let lo ← v2; let hi ← v2; let o ← v2; let d ← v2
      pure (Out.b (castRaySlab fmax lo hi o d))).run args
  | _ => none

end DrvC06
