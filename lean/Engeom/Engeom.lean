import Engeom.Scalar
import Engeom.Model.Prelude
import Engeom.Model.Angles
